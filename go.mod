module verif

go 1.23

require golang.org/x/tools v0.29.0
