// Package ref holds the reference models the generated code is compared
// with. It is plain Go written against vrt's non-forking Boolean connectives,
// so that under symgo every result is one formula over the symbolic input,
// and natively it is ordinary evaluation. Nothing here is derived from lox.
package ref

import "vgen/vrt"

// CNF is a grammar in Chomsky normal form. Terminal ids are positions in
// Kinds, which holds the generated token constants (-1: the @error
// pseudo-terminal, which no input token matches).
type CNF struct {
	NNT      int
	Start    int
	StartEps bool
	Term     [][2]int
	Bin      [][3]int
	Kinds    []int
}

type table struct {
	n int
	d [][]bool // d[a][i*(n+1)+j]
}

func (t *table) at(a, i, j int) bool     { return t.d[a][i*(t.n+1)+j] }
func (t *table) set(a, i, j int, v bool) { t.d[a][i*(t.n+1)+j] = v }

func (c *CNF) fill(toks []int) *table {
	n := len(toks)
	t := &table{n: n, d: make([][]bool, c.NNT)}
	for a := range t.d {
		t.d[a] = make([]bool, (n+1)*(n+1))
	}
	for i := 0; i < n; i++ {
		for _, p := range c.Term {
			k := c.Kinds[p[1]]
			if k < 0 {
				continue
			}
			t.set(p[0], i, i+1, vrt.Or(t.at(p[0], i, i+1), toks[i] == k))
		}
	}
	for l := 2; l <= n; l++ {
		for i := 0; i+l <= n; i++ {
			j := i + l
			for _, b := range c.Bin {
				acc := t.at(b[0], i, j)
				for k := i + 1; k < j; k++ {
					acc = vrt.Or(acc, vrt.And(t.at(b[1], i, k), t.at(b[2], k, j)))
				}
				t.set(b[0], i, j, acc)
			}
		}
	}
	return t
}

// Member: the token kinds form a sentence.
func (c *CNF) Member(toks []int) bool {
	if len(toks) == 0 {
		return c.StartEps
	}
	return c.fill(toks).at(c.Start, 0, len(toks))
}

// leftCorners[a] lists the non-terminals reachable from a through first
// symbols of binary productions (reflexive, transitive).
func (c *CNF) leftCorners() [][]int {
	lc := make([][]bool, c.NNT)
	for a := range lc {
		lc[a] = make([]bool, c.NNT)
		lc[a][a] = true
	}
	for changed := true; changed; {
		changed = false
		for _, b := range c.Bin {
			for a := 0; a < c.NNT; a++ {
				if lc[a][b[0]] && !lc[a][b[1]] {
					lc[a][b[1]] = true
					changed = true
				}
			}
		}
	}
	out := make([][]int, c.NNT)
	for a := range lc {
		for b, ok := range lc[a] {
			if ok {
				out[a] = append(out[a], b)
			}
		}
	}
	return out
}

// Viable reports, for every k in 0..n, whether toks[:k] is a prefix of some
// sentence (every non-terminal of a CNF built by the corpus is productive).
func (c *CNF) Viable(toks []int) []bool {
	n := len(toks)
	t := c.fill(toks)
	lc := c.leftCorners()
	res := make([]bool, n+1)
	res[0] = true
	for k := 1; k <= n; k++ {
		// v[a][i]: toks[i:k] is a proper-or-improper prefix of a string of a
		v := make([][]bool, c.NNT)
		base := make([][]bool, c.NNT)
		for a := range v {
			v[a] = make([]bool, k+1)
			base[a] = make([]bool, k+1)
			v[a][k] = true
		}
		for i := k - 1; i >= 0; i-- {
			for _, p := range c.Term {
				kind := c.Kinds[p[1]]
				if i+1 == k && kind >= 0 {
					base[p[0]][i] = vrt.Or(base[p[0]][i], toks[i] == kind)
				}
			}
			for _, b := range c.Bin {
				acc := base[b[0]][i]
				for m := i + 1; m <= k; m++ {
					acc = vrt.Or(acc, vrt.And(t.at(b[1], i, m), v[b[2]][m]))
				}
				base[b[0]][i] = acc
			}
			for a := 0; a < c.NNT; a++ {
				acc := false
				for _, b := range lc[a] {
					acc = vrt.Or(acc, base[b][i])
				}
				v[a][i] = acc
			}
		}
		res[k] = v[c.Start][0]
	}
	return res
}
