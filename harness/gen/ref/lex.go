package ref

import (
	"fmt"
	"unicode/utf8"

	"vgen/vrt"
)

type Range struct{ Lo, Hi rune }

type LexPos struct {
	Set  []Range
	Rule int
}

type LexAct struct {
	Push bool
	Mode int
	Pop  bool
}

const (
	EffAccept  = 1
	EffDiscard = 2
	EffAccum   = 3
)

type LexRule struct {
	Src      string
	Effect   int
	Token    int
	Last     []int
	Nullable bool
	NG       bool
	Actions  []LexAct
}

type LexMode struct {
	Name   string
	Pos    []LexPos
	First  []int
	Follow [][]int
	Rules  []LexRule
	pred   [][]int
	first  []bool
}

type LexSpec struct {
	Modes []*LexMode
}

// LexStep is one PushRune call: the rune passed, the result, and the token
// reported on accept.
type LexStep struct {
	R      rune
	Action int
	Token  int
}

// LexTok is one token returned by the driver.
type LexTok struct {
	Type  int
	Len   int // len(Str)
	Pos   int // offset derived from Token.Pos
	Start int // offset of Str inside the input
	Steps int
}

func (m *LexMode) prepare() {
	if m.pred != nil {
		return
	}
	m.pred = make([][]int, len(m.Pos))
	for p, qs := range m.Follow {
		for _, q := range qs {
			m.pred[q] = append(m.pred[q], p)
		}
	}
	m.first = make([]bool, len(m.Pos))
	for _, q := range m.First {
		m.first[q] = true
	}
}

func inSet(c rune, set []Range) bool {
	r := false
	for _, x := range set {
		r = vrt.Or(r, vrt.And(x.Lo <= c, c <= x.Hi))
	}
	return r
}

// step: positions matched after reading c (from the start of a stretch when
// s is nil).
func (m *LexMode) step(s []bool, c rune) []bool {
	out := make([]bool, len(m.Pos))
	for q := range m.Pos {
		var from bool
		if s == nil {
			from = m.first[q]
		} else {
			for _, p := range m.pred[q] {
				from = vrt.Or(from, s[p])
			}
		}
		if from == false && !vrt.Symbolic() {
			continue
		}
		out[q] = vrt.And(from, inSet(c, m.Pos[q].Set))
	}
	return out
}

func anyOf(s []bool) bool {
	r := false
	for _, b := range s {
		r = vrt.Or(r, b)
	}
	return r
}

func (m *LexMode) hit(s []bool, ri int) bool {
	if s == nil {
		// a rule never matches the empty string at run time
		return false
	}
	r := false
	for _, l := range m.Rules[ri].Last {
		r = vrt.Or(r, s[l])
	}
	return r
}

func (m *LexMode) ngComplete(s []bool) bool {
	r := false
	for ri := range m.Rules {
		if m.Rules[ri].NG {
			r = vrt.Or(r, m.hit(s, ri))
		}
	}
	return r
}

// CheckLex validates the recorded run against the rules: every stretch is the
// longest viable run of the current mode (or ends at the first complete match
// of a non-greedy rule), the effect is that of the earliest declared rule
// matching exactly that run, modes follow the written actions, and token type,
// text and position are what the definition gives. With account it also
// demands that no accumulated text is pending at EOF. Assertions are raised
// through vrt; the returned string reports concrete structural mismatches.
func CheckLex(spec *LexSpec, input []byte, steps []LexStep, toks []LexTok, ended bool, account bool) string {
	for _, m := range spec.Modes {
		m.prepare()
	}
	mode := spec.Modes[0]
	var stack []*LexMode
	o, accStart, ti, si := 0, 0, 0, 0
	decode := func(at int) (rune, int) {
		if at >= len(input) {
			return -1, 0
		}
		return utf8.DecodeRune(input[at:])
	}
	for si < len(steps) {
		var s []bool
		for si < len(steps) && steps[si].Action == 0 {
			r, w := decode(o)
			vrt.Assert(r == steps[si].R, "driver-rune")
			if s != nil {
				vrt.Assert(vrt.Not(mode.ngComplete(s)), "continued-past-non-greedy-match")
			}
			s2 := mode.step(s, r)
			vrt.Assert(anyOf(s2), "consumed-non-viable-character")
			s = s2
			o += w
			si++
		}
		if si >= len(steps) {
			return ""
		}
		st := steps[si]
		si++
		r, _ := decode(o)
		vrt.Assert(r == st.R, "driver-rune")
		// the run could not be extended (or a non-greedy rule was complete)
		canExtend := false
		if r >= 0 || vrt.Symbolic() {
			canExtend = vrt.And(r >= 0, anyOf(mode.step(s, r)))
		}
		if s != nil {
			vrt.Assert(vrt.Or(mode.ngComplete(s), vrt.Not(canExtend)), "stopped-before-longest-match")
		} else {
			vrt.Assert(vrt.Not(canExtend), "stopped-before-longest-match")
		}
		// earliest declared rule matching exactly this run
		none := true
		prior := false
		okEffect := false
		wins := make([]bool, len(mode.Rules))
		for ri := range mode.Rules {
			h := mode.hit(s, ri)
			wins[ri] = vrt.And(h, vrt.Not(prior))
			prior = vrt.Or(prior, h)
			none = vrt.And(none, vrt.Not(h))
			rule := mode.Rules[ri]
			same := false
			switch st.Action {
			case 1:
				same = rule.Effect == EffAccept && rule.Token == st.Token
			case 2:
				same = rule.Effect == EffDiscard
			case 3:
				same = rule.Effect == EffAccum
			}
			if same {
				okEffect = vrt.Or(okEffect, wins[ri])
			}
		}
		atEOF := vrt.And(s == nil, r < 0)
		switch st.Action {
		case 1, 2, 3:
			vrt.Assert(okEffect, "effect-of-earliest-matching-rule")
		case 4:
			vrt.Assert(vrt.And(none, atEOF), "eof-only-at-end-with-nothing-pending")
		default:
			// error: nothing matches (a pop on an empty mode stack is undefined
			// by the documentation: comparison stops there, see below)
			popEmpty := false
			for ri := range mode.Rules {
				for _, a := range mode.Rules[ri].Actions {
					if a.Pop && len(stack) == 0 {
						popEmpty = vrt.Or(popEmpty, wins[ri])
					}
				}
			}
			// at end of input an error is due exactly when text accumulated by
			// fragments is still pending (it belongs to no token)
			pending := accStart != o
			vrt.Assert(vrt.Or(popEmpty, vrt.And(none, vrt.Or(vrt.Not(atEOF), pending))), "error-only-when-nothing-matches")
		}
		switch st.Action {
		case 1, 2, 3:
			// follow the written actions of the winning rule
			win := -1
			for ri := range mode.Rules {
				if wins[ri] {
					win = ri
					break
				}
			}
			if win < 0 {
				return "no winning rule on this path"
			}
			for _, a := range mode.Rules[win].Actions {
				if a.Push {
					stack = append(stack, mode)
					mode = spec.Modes[a.Mode]
				}
				if a.Pop {
					if len(stack) == 0 {
						return "" // undefined: stop comparing
					}
					mode = stack[len(stack)-1]
					stack = stack[:len(stack)-1]
				}
			}
		}
		switch st.Action {
		case 1:
			if ti >= len(toks) {
				return "accept without a token from the driver"
			}
			t := toks[ti]
			ti++
			if t.Type != st.Token {
				return fmt.Sprintf("token %d: driver type %d, state machine said %d", ti-1, t.Type, st.Token)
			}
			if t.Start != accStart || t.Len != o-accStart || t.Pos != accStart {
				return fmt.Sprintf("token %d: text [%d,+%d) pos %d, expected [%d,%d)", ti-1, t.Start, t.Len, t.Pos, accStart, o)
			}
			accStart = o
		case 2:
			accStart = o
		case 3:
		case 4:
			if ti >= len(toks) || toks[ti].Type != 0 {
				return "EOF result without EOF token"
			}
			if toks[ti].Pos != accStart {
				return fmt.Sprintf("EOF token at %d, expected %d", toks[ti].Pos, accStart)
			}
			if accStart != o {
				return fmt.Sprintf("text [%d,%d) accumulated by a fragment is dropped at EOF", accStart, o)
			}
			return ""
		default:
			if ti >= len(toks) || toks[ti].Type != 1 {
				return "error result without ERROR token"
			}
			if toks[ti].Pos != accStart {
				return fmt.Sprintf("ERROR token at %d, expected %d", toks[ti].Pos, accStart)
			}
			return ""
		}
	}
	if ended {
		return "driver ended without a final state-machine result"
	}
	return ""
}

// Exported forms for the product construction (C10).
func (m *LexMode) Prepare()                      { m.prepare() }
func (m *LexMode) Step(s []bool, c rune) []bool  { return m.step(s, c) }
func (m *LexMode) Hit(s []bool, ri int) bool     { return m.hit(s, ri) }
func (m *LexMode) NgComplete(s []bool) bool      { return s != nil && m.ngComplete(s) }
func AnyOf(s []bool) bool                        { return anyOf(s) }
