package ref

import "fmt"

// PrecTree renders the grouping a precedence-climbing parser gives to the
// (concrete) token sequence for an expression rule (rule 0) whose binary
// alternatives "e OP e" carry @left/@right(n): higher n binds tighter, equal
// levels group left-to-right for @left and right-to-left for @right. Other
// alternatives are primaries. rightAsLeft builds the known defect model.
// It returns "" when the input is not an expression.
type precParser struct {
	g           *Grammar
	toks        []int
	pos         int
	rightAsLeft bool
}

func isBinary(ri int, pr *Prod) bool {
	return len(pr.Terms) == 3 && pr.Assoc != 0 && pr.Terms[0].Kind == NT && pr.Terms[0].ID == ri &&
		pr.Terms[1].Kind == Tok && pr.Terms[2].Kind == NT && pr.Terms[2].ID == ri
}

func (p *precParser) binary(ri, kind int) (int, *Prod) {
	for i := range p.g.Rules[ri].Prods {
		pr := &p.g.Rules[ri].Prods[i]
		if isBinary(ri, pr) && pr.Terms[1].ID == kind {
			return i, pr
		}
	}
	return -1, nil
}

// alt tries the non-binary productions of a rule in order (with backtracking).
func (p *precParser) alt(ri int) (string, bool) {
	for i := range p.g.Rules[ri].Prods {
		pr := &p.g.Rules[ri].Prods[i]
		if isBinary(ri, pr) {
			continue
		}
		save := p.pos
		s := fmt.Sprintf("(%d", i)
		ok := true
		for _, t := range pr.Terms {
			if t.Kind == Tok {
				if p.pos < len(p.toks) && p.toks[p.pos] == t.ID {
					s += fmt.Sprintf(" t%d", p.pos)
					p.pos++
					continue
				}
				ok = false
				break
			}
			if t.Kind != NT || t.Card != One {
				ok = false
				break
			}
			sub, sok := p.rule(t.ID, 0, false)
			if !sok {
				ok = false
				break
			}
			s += " " + sub
		}
		if ok {
			return s + ")", true
		}
		p.pos = save
	}
	return "", false
}

// rule parses one rule; for a rule with qualified binary alternatives it
// climbs operators of level >= min (> min when strict).
func (p *precParser) rule(ri, min int, strict bool) (string, bool) {
	lhs, ok := p.alt(ri)
	if !ok {
		return "", false
	}
	for p.pos < len(p.toks) {
		pi, pr := p.binary(ri, p.toks[p.pos])
		if pr == nil || pr.Prec < min || (strict && pr.Prec == min) {
			break
		}
		save := p.pos
		op := p.pos
		p.pos++
		// left: the right operand takes only tighter operators; right: also equal ones
		rstrict := true
		if pr.Assoc == 2 && !p.rightAsLeft {
			rstrict = false
		}
		rhs, rok := p.rule(ri, pr.Prec, rstrict)
		if !rok {
			p.pos = save
			break
		}
		lhs = fmt.Sprintf("(%d %s t%d %s)", pi, lhs, op, rhs)
	}
	return lhs, true
}

func PrecTree(g *Grammar, toks []int, rightAsLeft bool) string {
	p := &precParser{g: g, toks: toks, rightAsLeft: rightAsLeft}
	s, ok := p.rule(0, 0, false)
	if !ok || p.pos != len(toks) {
		return ""
	}
	return s
}

// RenderLog renders the tree built by the action calls in the same notation.
func RenderLog(g *Grammar, log []Call) string {
	if len(log) == 0 {
		return ""
	}
	c := &checker{g: g, log: log}
	return c.render(len(log) - 1)
}

func (c *checker) prodIndex(call Call) int {
	r := c.g.Rules[call.Rule]
	p := c.pickProd(call)
	for _, pi := range r.Groups[call.Prod] {
		if len(r.Prods[pi].Terms) == len(p.Terms) {
			same := true
			for i := range p.Terms {
				if r.Prods[pi].Terms[i].Kind != p.Terms[i].Kind || r.Prods[pi].Terms[i].ID != p.Terms[i].ID {
					same = false
				}
			}
			if same {
				return pi
			}
		}
	}
	return r.Groups[call.Prod][0]
}

func (c *checker) render(id int) string {
	call := c.log[id]
	s := fmt.Sprintf("(%d", c.prodIndex(call))
	for _, a := range call.Args {
		switch a.Kind {
		case VTok:
			s += fmt.Sprintf(" t%d", a.Idx)
		case VNode:
			s += " " + c.render(a.Node)
		default:
			s += " ?"
		}
	}
	return s + ")"
}
