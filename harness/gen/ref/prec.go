package ref

import "fmt"

// PrecTree renders the grouping a precedence-climbing parser gives to the
// (concrete) token sequence for an expression rule (rule 0) whose binary
// alternatives "e OP e" carry @left/@right(n): higher n binds tighter, equal
// levels group left-to-right for @left and right-to-left for @right. Other
// alternatives are primaries. rightAsLeft builds the known defect model.
// It returns "" when the input is not an expression.
type precParser struct {
	g           *Grammar
	toks        []int
	pos         int
	rightAsLeft bool
	fail        bool
}

func (p *precParser) binary(kind int) (int, *Prod) {
	for i := range p.g.Rules[0].Prods {
		pr := &p.g.Rules[0].Prods[i]
		if len(pr.Terms) == 3 && pr.Terms[0].Kind == NT && pr.Terms[1].Kind == Tok && pr.Terms[2].Kind == NT && pr.Terms[1].ID == kind && pr.Assoc != 0 {
			return i, pr
		}
	}
	return -1, nil
}

func (p *precParser) primary() string {
	if p.pos >= len(p.toks) {
		p.fail = true
		return ""
	}
	for i := range p.g.Rules[0].Prods {
		pr := &p.g.Rules[0].Prods[i]
		if len(pr.Terms) == 0 || pr.Terms[0].Kind != Tok || pr.Terms[0].ID != p.toks[p.pos] {
			continue
		}
		save := p.pos
		s := fmt.Sprintf("(%d", i)
		ok := true
		for ti, t := range pr.Terms {
			if t.Kind == Tok {
				if p.pos < len(p.toks) && p.toks[p.pos] == t.ID {
					s += fmt.Sprintf(" t%d", p.pos)
					p.pos++
				} else {
					ok = false
					break
				}
			} else {
				_ = ti
				sub := p.expr(0, false)
				if p.fail {
					return ""
				}
				s += " " + sub
			}
		}
		if ok {
			return s + ")"
		}
		p.pos = save
	}
	p.fail = true
	return ""
}

// expr parses operators of level >= min (> min when strict).
func (p *precParser) expr(min int, strict bool) string {
	lhs := p.primary()
	if p.fail {
		return ""
	}
	for p.pos < len(p.toks) {
		pi, pr := p.binary(p.toks[p.pos])
		if pr == nil || pr.Prec < min || (strict && pr.Prec == min) {
			break
		}
		op := p.pos
		p.pos++
		// left: the right operand takes only tighter operators; right: also equal ones
		rstrict := true
		if pr.Assoc == 2 && !p.rightAsLeft {
			rstrict = false
		}
		rhs := p.expr(pr.Prec, rstrict)
		if p.fail {
			return ""
		}
		lhs = fmt.Sprintf("(%d %s t%d %s)", pi, lhs, op, rhs)
	}
	return lhs
}

func PrecTree(g *Grammar, toks []int, rightAsLeft bool) string {
	p := &precParser{g: g, toks: toks, rightAsLeft: rightAsLeft}
	s := p.expr(0, false)
	if p.fail || p.pos != len(toks) {
		return ""
	}
	return s
}

// RenderLog renders the tree built by the action calls in the same notation.
func RenderLog(g *Grammar, log []Call) string {
	if len(log) == 0 {
		return ""
	}
	c := &checker{g: g, log: log}
	return c.render(len(log) - 1)
}

func (c *checker) prodIndex(call Call) int {
	r := c.g.Rules[call.Rule]
	p := c.pickProd(call)
	for _, pi := range r.Groups[call.Prod] {
		if len(r.Prods[pi].Terms) == len(p.Terms) {
			same := true
			for i := range p.Terms {
				if r.Prods[pi].Terms[i].Kind != p.Terms[i].Kind || r.Prods[pi].Terms[i].ID != p.Terms[i].ID {
					same = false
				}
			}
			if same {
				return pi
			}
		}
	}
	return r.Groups[call.Prod][0]
}

func (c *checker) render(id int) string {
	call := c.log[id]
	s := fmt.Sprintf("(%d", c.prodIndex(call))
	for _, a := range call.Args {
		switch a.Kind {
		case VTok:
			s += fmt.Sprintf(" t%d", a.Idx)
		case VNode:
			s += " " + c.render(a.Node)
		default:
			s += " ?"
		}
	}
	return s + ")"
}
