package ref

import "fmt"

type TermKind int

const (
	Tok TermKind = iota
	NT
	Err
	List
)

type Card int

const (
	One Card = iota
	Opt
	Star
	Plus
	StarF
)

// Term: ID is the generated token constant (Tok) or the rule index (NT).
type Term struct {
	Kind TermKind
	ID   int
	Card Card
	Elem *Term
	Sep  *Term
}

type Prod struct {
	Assoc int // 0 none, 1 left, 2 right
	Prec  int
	Terms []Term
}

type Rule struct {
	Name   string
	Prods  []Prod
	Groups [][]int // productions sharing one action method (same signature)
}

type Grammar struct {
	Rules []Rule
}

type ValKind int

const (
	VTok ValKind = iota
	VNode
	VNilNode
	VErr
	VList
	VNil
	VOther
)

// Val is an action argument or result in checker form.
type Val struct {
	Kind  ValKind
	Tok   int // token kind
	Idx   int // token index in the input
	Dis   bool
	Node  int // log index
	Elems []Val
	Nil   bool
}

// Call is one logged action call (log index = call order). Prod is the index
// of the action method's group of productions.
type Call struct {
	Rule, Prod int
	Args       []Val
	Dis        bool
}

// BoundCall is one _onBounds call.
type BoundCall struct {
	Res        Val
	Begin, End int // token indices
	After      int // number of actions that had run when it was called
}

type checker struct {
	g      *Grammar
	log    []Call
	toks   []int
	used   []bool
	order  []int
	first  []int // first token index below each node, -1 if none
	last   []int
	withE  bool
	expB   []BoundCall
	bounds bool
	disTok []bool
	err    string
}

func (c *checker) fail(format string, args ...any) {
	if c.err == "" {
		c.err = fmt.Sprintf(format, args...)
	}
}

func (c *checker) firstOf(v Val) int {
	switch v.Kind {
	case VTok:
		if v.Tok == 0 {
			return -1 // zero Token (absent optional)
		}
		return v.Idx
	case VNode:
		return c.first[v.Node]
	case VList:
		for _, e := range v.Elems {
			if f := c.firstOf(e); f >= 0 {
				return f
			}
		}
	}
	return -1
}

func (c *checker) computeFirst() {
	c.first = make([]int, len(c.log))
	for id, call := range c.log {
		c.first[id] = -1
		for _, a := range call.Args {
			if f := c.firstOf(a); f >= 0 {
				c.first[id] = f
				break
			}
		}
	}
}

// pickProd chooses, among the productions that share the action method, the
// one whose terms agree with the delivered arguments.
func (c *checker) pickProd(call Call) Prod {
	r := c.g.Rules[call.Rule]
	grp := r.Groups[call.Prod]
	for _, pi := range grp {
		p := r.Prods[pi]
		ok := len(p.Terms) == len(call.Args)
		for i := 0; ok && i < len(p.Terms); i++ {
			t, a := p.Terms[i], call.Args[i]
			if t.Kind == List || t.Card == Star || t.Card == Plus || t.Card == StarF {
				bt := t
				if t.Kind == List {
					bt = *t.Elem
				}
				for _, e := range a.Elems {
					ok = ok && c.agrees(bt, e)
				}
				continue
			}
			if t.Card == Opt && absent(a) {
				continue
			}
			ok = ok && c.agrees(t, a)
		}
		if ok {
			return p
		}
	}
	return r.Prods[grp[0]]
}

func (c *checker) agrees(t Term, a Val) bool {
	switch t.Kind {
	case Tok:
		return a.Kind == VTok && a.Tok == t.ID
	case NT:
		return a.Kind == VNode && c.log[a.Node].Rule == t.ID
	case Err:
		return a.Kind == VErr
	}
	return true
}

const floating = 1 << 20 // marker added to an end position that may extend to the right

// span bookkeeping for bounds
type span struct{ lo, hi int } // token indices [lo,hi); lo==hi empty

func (c *checker) emitBound(res Val, s span, after int) {
	if !c.bounds || s.lo >= s.hi {
		return
	}
	c.expB = append(c.expB, BoundCall{Res: res, Begin: s.lo, End: s.hi - 1, After: after})
}

// node checks the subtree rooted at log entry id starting at token pos and
// returns the end position.
func (c *checker) node(id int, pos int) int {
	if id < 0 || id >= len(c.log) {
		c.fail("node id %d out of range", id)
		return pos
	}
	if c.used[id] {
		c.fail("action result %d used twice", id)
		return pos
	}
	c.used[id] = true
	call := c.log[id]
	prod := c.pickProd(call)
	if len(call.Args) != len(prod.Terms) {
		c.fail("action %d: %d arguments for %d terms", id, len(call.Args), len(prod.Terms))
		return pos
	}
	start := pos
	for i := range prod.Terms {
		pos = c.term(&prod.Terms[i], call.Args[i], pos, id)
		if c.err != "" {
			return pos
		}
	}
	c.order = append(c.order, id)
	end := pos
	if end >= floating {
		end -= floating
	}
	c.emitBound(Val{Kind: VNode, Node: id}, span{start, end}, id+1)
	return pos
}

// anchor resolves a floating position against the first token of what comes
// next.
func (c *checker) anchor(pos int, v Val) int {
	if pos < floating {
		return pos
	}
	f := c.firstOf(v)
	if f < 0 {
		return pos // nothing to anchor on: stays floating
	}
	if f < pos-floating {
		c.fail("token %d delivered after position %d", f, pos-floating)
	}
	return f
}

func (c *checker) base(t *Term, a Val, pos int, parent int) int {
	switch t.Kind {
	case Tok:
		pos = c.anchor(pos, a)
		if a.Kind != VTok {
			c.fail("action %d: token expected, got kind %d", parent, a.Kind)
			return pos
		}
		if pos >= len(c.toks) || a.Idx != pos {
			c.fail("action %d: token #%d delivered where input position %d was expected", parent, a.Idx, pos)
			return pos
		}
		if c.toks[pos] != t.ID || a.Tok != c.toks[pos] {
			c.fail("action %d: token at %d has kind %d, term wants %d, delivered %d", parent, pos, c.toks[pos], t.ID, a.Tok)
			return pos
		}
		return pos + 1
	case NT:
		pos = c.anchor(pos, a)
		if a.Kind != VNode {
			c.fail("action %d: node expected, got kind %d", parent, a.Kind)
			return pos
		}
		if c.log[a.Node].Rule != t.ID {
			c.fail("action %d: node of rule %d where rule %d was expected", parent, c.log[a.Node].Rule, t.ID)
			return pos
		}
		if pos >= floating {
			// an empty node right after an error stretch
			return c.node(a.Node, pos-floating) + floating
		}
		return c.node(a.Node, pos)
	case Err:
		if !c.withE {
			c.fail("action %d: @error production ran", parent)
			return pos
		}
		if a.Kind != VErr {
			c.fail("action %d: Error expected, got kind %d", parent, a.Kind)
			return pos
		}
		if pos >= floating {
			return pos
		}
		return pos + floating
	case List:
		if a.Kind != VList {
			c.fail("action %d: list expected", parent)
			return pos
		}
		start := pos
		for i, e := range a.Elems {
			if i > 0 {
				// separator: a token of the separator's kind (not delivered)
				if t.Sep.Kind == NT && !c.withE && pos < floating {
					// a rule as separator: its action runs (bottom-up it is the
					// next call in order) but its result is delivered to nobody
					id := c.after()
					if id >= len(c.log) || c.log[id].Rule != t.Sep.ID {
						c.fail("action %d: the action of the separator rule %d expected as call %d", parent, t.Sep.ID, id)
						return pos
					}
					pos = c.node(id, pos)
					if c.err != "" {
						return pos
					}
					pos = c.base(t.Elem, e, pos, parent)
					if c.err != "" {
						return pos
					}
					c.emitBound(Val{Kind: VList, Elems: a.Elems[:i+1]}, span{start, pos}, c.after())
					continue
				}
				if t.Sep.Kind != Tok {
					c.fail("list separator must be a token in the corpus")
					return pos
				}
				if pos >= floating {
					// after an error stretch: anchor on the next element
					f := c.firstOf(e)
					if f < 0 || f == 0 {
						pos = c.base(t.Elem, e, pos, parent)
						continue
					}
					pos = f - 1
				}
				if pos >= len(c.toks) || c.toks[pos] != t.Sep.ID {
					c.fail("action %d: separator expected at %d", parent, pos)
					return pos
				}
				pos++
			}
			pos = c.base(t.Elem, e, pos, parent)
			if c.err != "" {
				return pos
			}
			c.emitBound(Val{Kind: VList, Elems: a.Elems[:i+1]}, span{start, pos}, c.after())
		}
		return pos
	}
	c.fail("bad term")
	return pos
}

// after gives the number of actions run so far in post-order.
func (c *checker) after() int {
	if len(c.order) == 0 {
		return 0
	}
	return c.order[len(c.order)-1] + 1
}

func absent(a Val) bool {
	return a.Kind == VNilNode || a.Kind == VNil || (a.Kind == VTok && a.Tok == 0 && a.Idx == 0) || (a.Kind == VList && len(a.Elems) == 0)
}

func (c *checker) term(t *Term, a Val, pos int, parent int) int {
	switch t.Card {
	case One:
		if t.Kind == List && len(a.Elems) == 0 {
			c.fail("action %d: empty @list", parent)
			return pos
		}
		return c.base(t, a, pos, parent)
	case Opt:
		if absent(a) {
			return pos
		}
		start := pos
		pos = c.base(t, a, pos, parent)
		if t.Kind != List {
			// the generated optional node reports the same value again
			c.emitBound(a, span{start, pos}, c.after())
		} else {
			c.emitBound(a, span{start, pos}, c.after())
		}
		return pos
	case Star, Plus:
		if a.Kind != VList {
			c.fail("action %d: list expected for repetition", parent)
			return pos
		}
		if t.Card == Plus && len(a.Elems) == 0 {
			c.fail("action %d: empty list for +", parent)
			return pos
		}
		bt := *t
		bt.Card = One
		start := pos
		for i, e := range a.Elems {
			pos = c.base(&bt, e, pos, parent)
			if c.err != "" {
				return pos
			}
			c.emitBound(Val{Kind: VList, Elems: a.Elems[:i+1]}, span{start, pos}, c.after())
		}
		if t.Card == Star && len(a.Elems) > 0 {
			// x* = x+ | ε : the x+ value is reported once more for x*
			c.emitBound(Val{Kind: VList, Elems: a.Elems}, span{start, pos}, c.after())
		}
		return pos
	case StarF:
		if a.Kind != VList {
			c.fail("action %d: list expected for *!", parent)
			return pos
		}
		bt := *t
		bt.Card = One
		next := 0
		for {
			if pos >= floating {
				c.fail("*! after error stretch unsupported")
				return pos
			}
			if next < len(a.Elems) && c.firstOf(a.Elems[next]) == pos {
				if a.Elems[next].Dis {
					c.fail("action %d: element with Discard()==true delivered", parent)
					return pos
				}
				pos = c.base(&bt, a.Elems[next], pos, parent)
				next++
				if c.err != "" {
					return pos
				}
				continue
			}
			// a dropped element?
			if t.Kind == Tok {
				if pos < len(c.toks) && c.toks[pos] == t.ID && c.disTok != nil && c.disTok[pos] {
					pos++
					continue
				}
			} else if t.Kind == NT {
				found := -1
				for id := range c.log {
					if !c.used[id] && c.log[id].Rule == t.ID && c.first[id] == pos && c.log[id].Dis {
						found = id
						break
					}
				}
				if found >= 0 {
					pos = c.node(found, pos)
					if c.err != "" {
						return pos
					}
					continue
				}
			}
			break
		}
		if next != len(a.Elems) {
			c.fail("action %d: *! list has %d elements that are not in the input at their place", parent, len(a.Elems)-next)
		}
		return pos
	}
	c.fail("bad cardinality")
	return pos
}

func (c *checker) run(root int) {
	c.used = make([]bool, len(c.log))
	c.computeFirst()
	if len(c.log) == 0 {
		c.fail("no action ran")
		return
	}
	if c.log[root].Rule != 0 {
		c.fail("last action is of rule %d, not the start rule", c.log[root].Rule)
		return
	}
	end := c.node(root, 0)
	if c.err != "" {
		return
	}
	if end >= floating {
		end = len(c.toks)
	}
	if end != len(c.toks) {
		c.fail("tree covers %d of %d tokens", end, len(c.toks))
		return
	}
	if c.withE {
		// results of actions inside a stretch replaced by @error are dropped;
		// the others must still have run in post-order
		for i := 1; i < len(c.order); i++ {
			if c.order[i-1] >= c.order[i] {
				c.fail("actions did not run bottom-up left-to-right: call %d before call %d", c.order[i-1], c.order[i])
				return
			}
		}
		return
	}
	for id, u := range c.used {
		if !u {
			c.fail("action call %d is not part of the tree", id)
			return
		}
	}
	for i, id := range c.order {
		if i != id {
			c.fail("actions did not run bottom-up left-to-right: position %d holds call %d", i, id)
			return
		}
	}
}

// disTok is set by CheckTreeDis.
func sameVal(a, b Val) bool {
	if a.Kind != b.Kind {
		return false
	}
	switch a.Kind {
	case VNode:
		return a.Node == b.Node
	case VTok:
		return a.Idx == b.Idx && a.Tok == b.Tok
	case VList:
		if len(a.Elems) != len(b.Elems) {
			return false
		}
		for i := range a.Elems {
			if !sameVal(a.Elems[i], b.Elems[i]) {
				return false
			}
		}
	}
	return true
}

// CheckTree verifies that the logged action calls form a derivation tree of
// toks (concrete kinds), ran bottom-up left to right, every argument being the
// value produced for its term; with onBounds also the exact _onBounds calls.
// It returns "" or a description of the first discrepancy.
func CheckTree(g *Grammar, log []Call, toks []int, dis []bool, bounds []BoundCall, onBounds bool) string {
	c := &checker{g: g, log: log, toks: toks, bounds: onBounds, disTok: dis}
	c.run(len(log) - 1)
	if c.err != "" {
		return c.err
	}
	if onBounds {
		if len(bounds) != len(c.expB) {
			return fmt.Sprintf("_onBounds called %d times, expected %d", len(bounds), len(c.expB))
		}
		for i := range bounds {
			b, e := bounds[i], c.expB[i]
			if b.Begin != e.Begin || b.End != e.End || b.After != e.After || !sameVal(b.Res, e.Res) {
				return fmt.Sprintf("_onBounds call %d: got tokens %d..%d after %d actions, expected %d..%d after %d", i, b.Begin, b.End, b.After, e.Begin, e.End, e.After)
			}
		}
	}
	return ""
}

// CheckTreeErr is CheckTree for parses that went through error recovery:
// @error terms stand for arbitrary stretches of input.
func CheckTreeErr(g *Grammar, log []Call, toks []int) string {
	c := &checker{g: g, log: log, toks: toks, withE: true}
	c.run(len(log) - 1)
	return c.err
}
