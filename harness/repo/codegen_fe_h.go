//vrt:target internal/codegen/zz_verif_fe_h.go

package codegen

import (
	gotoken "go/token"
	"os"

	"github.com/dcaiafa/lox/internal/base/errlogger"
	"github.com/dcaiafa/lox/internal/lexergen/mode"
	"github.com/dcaiafa/lox/zz_verif/vrt"
)

// vSink counts what the error logger prints.
type vSink struct {
	writes int
	bytes  int
}

func (s *vSink) Write(p []byte) (int, error) {
	s.writes++
	s.bytes += len(p)
	return len(p), nil
}

// vFrontEnd runs the real ParseLox (parser.Parse, ast.Analyze, mode building,
// ConstructLALR) on in-memory files and checks the C12 contract: either a
// complete result, or at least one diagnostic.
func vFrontEnd(files ...[]byte) (ok bool) {
	dir := vrt.TempDir()
	defer vrt.RemoveAll(dir)
	for i, data := range files {
		vrt.WriteFile(dir+"/"+vrt.Name("f", i)+".lox", data)
	}
	fset := gotoken.NewFileSet()
	sink := &vSink{}
	c := &context{Fset: fset, Errs: errlogger.New(fset, sink), Dir: dir}
	ok = c.ParseLox()
	if ok {
		vrt.Reach("accepted")
		vrt.Assert(!c.Errs.HasError(), "success-without-errors")
		vrt.Assert(c.ParserGrammar != nil && c.ParserTable != nil && c.LexerModes != nil, "success-has-grammar-table-modes")
		vrt.Assert(!c.ParserTable.HasConflicts, "success-without-conflicts")
		if vrt.Param("emit", 0) == 1 {
			// go on into the lexer emitter (template engine stubbed under the
			// engine, real natively): an accepted specification must not make
			// it panic either
			vEmitLexer(c)
			vrt.Reach("emitted")
		}
	} else {
		vrt.Reach("rejected")
		vrt.Assert(sink.writes > 0 && sink.bytes > 0, "rejection-prints-a-diagnostic")
		vrt.Assert(c.Errs.HasError(), "rejection-sets-error-flag")
	}
	return ok
}

const vSmall = `@lexer
A = 'a'
NUM = [0-9]+
@frag ' '+ @discard

@parser
@start s = e
e = e A e @left(1)
  | NUM
`

// H_FrontEndConcrete: engine smoke test on a fixed specification.
func H_FrontEndConcrete() {
	ok := vFrontEnd([]byte(vSmall))
	vrt.Assert(ok, "small-grammar-accepted")
}

// vFill replaces every '#' of the template by an arbitrary byte.
func vFill(tpl string, prefix string) []byte {
	out := make([]byte, len(tpl))
	k := 0
	for i := 0; i < len(tpl); i++ {
		if tpl[i] == '#' {
			out[i] = vrt.Byte(vrt.Name(prefix, k))
			k++
		} else {
			out[i] = tpl[i]
		}
	}
	return out
}

var vTemplates = []string{
	// 0: precedence digits
	"@lexer\nA = 'a'\nN = [0-9]+\n@parser\n@start e = e A e @left(##)\n | N\n",
	// 1: literal body
	"@lexer\nA = '###'\nB = 'b'\n@parser\n@start s = A B\n",
	// 2: class body
	"@lexer\nA = [###]\nB = 'b'\n@parser\n@start s = A B\n",
	// 3: token name
	"@lexer\n## = 'a'\nB = 'b'\n@parser\n@start s = B\n",
	// 4: mode name argument
	"@lexer\nA = 'a' @push_mode(##)\n@mode M {\nB = 'b' @pop_mode\n}\n@parser\n@start s = A B\n",
	// 5: raw bytes at statement level (lexer section)
	"@lexer\nA = 'a'\n###\n@parser\n@start s = A\n",
	// 6: raw bytes at statement level (parser section)
	"@lexer\nA = 'a'\n@parser\n@start s = A\n###\n",
	// 7: @emit argument
	"@lexer\nA = 'a'\n@frag 'q' @emit(##)\n@parser\n@start s = A\n",
	// 8: term reference in the parser
	"@lexer\nA = 'a'\n@parser\n@start s = A ##\n",
	// 9: cardinality / qualifier position
	"@lexer\nA = 'a'\n@parser\n@start s = A## A\n",
	// 10: lexer operator position
	"@lexer\nA = 'a'## 'b'\n@parser\n@start s = A\n",
	// 11: right qualifier with one digit and sign position
	"@lexer\nA = 'a'\nN = 'n'\n@parser\n@start e = e A e @right(#)\n | N\n",
	// 12: macro body
	"@lexer\n@macro MC = ##\nA = MC 'a'\n@parser\n@start s = A\n",
	// 13: mode name in a declaration
	"@lexer\nA = 'a'\n@mode ## {\nB = 'b'\n}\n@parser\n@start s = A\n",
	// 14: @external name
	"@lexer\nA = 'a'\n@external ##\n@parser\n@start s = A\n",
	// 15: @list separator
	"@lexer\nA = 'a'\nB = 'b'\n@parser\n@start s = @list(A, ##)\n",
	// 16: after a line continuation
	"@lexer\nA = 'a'\nB = 'b'\n@parser\n@start s = A \\\n ## B\n",
	// 17: inside a comment and right after it
	"@lexer\nA = 'a' // ##\n#\n@parser\n@start s = A\n",
	// 18: keyword position
	"@lexer\nA = 'a'\n@parser\n@## s = A\n",
	// 19: inside a group
	"@lexer\nA = ('a' ## 'b')+\n@parser\n@start s = A\n",
	// 20: right operand of a class difference
	"@lexer\nA = ~[a] - [##]\n@parser\n@start s = A\n",
	// 21: fragment expression
	"@lexer\nA = 'a'\n@frag ## @discard\n@parser\n@start s = A\n",
	// 22: a second rule marked @start, name symbolic
	"@lexer\nA = 'a'\n@parser\n@start s = A\n@start ## = A\n",
	// 23: between a term and the alternative bar
	"@lexer\nA = 'a'\nB = 'b'\n@parser\n@start s = A ## | B\n",
	// 24: macro referring to itself or to others
	"@lexer\n@macro MA = 'x' ##\n@macro MB = MA\nA = MB\n@parser\n@start s = A\n",
	// 25: action keyword
	"@lexer\nA = 'a' @##\n@parser\n@start s = A\n",
}

// H_Holes (C12): ParseLox on a template whose holes are arbitrary bytes. With
// parameter holes=k only the first k '#' are holes, the others are dropped.
func H_Holes() {
	tpl := vrt.Param("tpl", 0)
	k := vrt.Param("holes", 9)
	text := ""
	seen := 0
	for i := 0; i < len(vTemplates[tpl]); i++ {
		c := vTemplates[tpl][i]
		if c == '#' {
			seen++
			if seen > k {
				continue
			}
		}
		text += string(c)
	}
	vFrontEnd(vFill(text, "h"))
}

// H_Digits (C12): a precedence of n arbitrary decimal digits.
func H_Digits() {
	n := vrt.Param("digits", 3)
	text := "@lexer\nA = 'a'\nN = 'n'\n@parser\n@start e = e A e @left("
	for i := 0; i < n; i++ {
		text += "#"
	}
	text += ")\n | N\n"
	data := vFill(text, "d")
	for i := range data {
		if text[i] == '#' {
			vrt.Assume(vrt.And(data[i] >= '0', data[i] <= '9'))
		}
	}
	vFrontEnd(data)
}

var vSecondFile = []string{
	"@lexer\nC = '#'\n",
	"@lexer\n# = 'c'\n",
	"@lexer\n@mode # {\nC = 'c'\n}\n",
}

// H_HolesTwoFiles (C12): the hole sits in a second file.
func H_HolesTwoFiles() {
	tpl := vrt.Param("tpl", 0)
	first := "@lexer\nA = 'a'\nB = 'b'\n@mode M {\nD = 'd'\n}\n@parser\n@start s = A B\n"
	vFrontEnd([]byte(first), vFill(vSecondFile[tpl], "h"))
}

// ---- C17: well-formedness verdict and diagnostic position ----

// vTextSink keeps what the error logger prints.
type vTextSink struct{ text string }

func (s *vTextSink) Write(p []byte) (int, error) {
	s.text += string(p)
	return len(p), nil
}

// vRun runs ParseLox and returns the verdict and the diagnostics' lines.
func vRun(files ...[]byte) (bool, string) {
	dir := vrt.TempDir()
	defer vrt.RemoveAll(dir)
	for i, data := range files {
		vrt.WriteFile(dir+"/"+vrt.Name("f", i)+".lox", data)
	}
	fset := gotoken.NewFileSet()
	sink := &vTextSink{}
	c := &context{Fset: fset, Errs: errlogger.New(fset, sink), Dir: dir}
	ok := c.ParseLox()
	return ok, sink.text
}

// vMentionsLine: some diagnostic is positioned at <file>:<line>:.
func vMentionsLine(text string, file int, line int) bool {
	want := vrt.Name("f", file) + ".lox:" + vrt.Name("", line) + ":"
	for i := 0; i+len(want) <= len(text); i++ {
		if text[i:i+len(want)] == want {
			return true
		}
	}
	return false
}

func vUpper(b byte) bool  { return vrt.And(b >= 'A', b <= 'Z') }
func vDigit(b byte) bool  { return vrt.And(b >= '0', b <= '9') }
func vLower(b byte) bool  { return vrt.And(b >= 'a', b <= 'z') }
func vAlnum(b byte) bool  { return vrt.Or(vUpper(b), vrt.Or(vLower(b), vDigit(b))) }
func vIs(b0, b1 byte, s string) bool {
	return vrt.And(b0 == s[0], b1 == s[1])
}

// H_TokenName: a two-byte token name in the default mode / inside a mode /
// in a second file. Accepted iff it obeys the documented naming rules and is
// unique; a rejection names the line of the declaration.
func H_TokenName() {
	place := vrt.Param("place", 0)
	b0, b1 := vrt.Byte("n0"), vrt.Byte("n1")
	// keep the hole a single identifier-like token: letters, digits, underscore
	vrt.Assume(vrt.Or(vAlnum(b0), b0 == '_'))
	vrt.Assume(vrt.Or(vAlnum(b1), b1 == '_'))
	name := string([]byte{b0, b1})
	var ok bool
	var text string
	line := 0
	switch place {
	case 0:
		ok, text = vRun([]byte("@lexer\nAB = 'a'\n" + name + " = 'x'\n@macro MC = 'm'\n@mode MD {\nCD = 'c'\n}\n@parser\n@start st = AB\n"))
		line = 3
	case 1:
		ok, text = vRun([]byte("@lexer\nAB = 'a'\n@macro MC = 'm'\n@mode MD {\nCD = 'c'\n" + name + " = 'x'\n}\n@parser\n@start st = AB\n"))
		line = 6
	default:
		ok, text = vRun([]byte("@lexer\nAB = 'a'\n@macro MC = 'm'\n@mode MD {\nCD = 'c'\n}\n@parser\n@start st = AB\n"), []byte("@lexer\n"+name+" = 'x'\n"))
		line = 2
	}
	wellFormed := vrt.And(vUpper(b0), vrt.Or(vUpper(b1), vDigit(b1)))
	// unique across tokens, macros, modes and rules; not reserved (EOF/ERROR have other lengths)
	for _, other := range []string{"AB", "MC", "MD", "CD", "st"} {
		wellFormed = vrt.And(wellFormed, vrt.Not(vIs(b0, b1, other)))
	}
	vrt.Assert(vrt.Iff(ok, wellFormed), "accepted-iff-well-formed")
	if !ok {
		vrt.Reach("rejected")
		file := 0
		if place >= 2 {
			file = 1
		}
		vrt.Assert(vMentionsLine(text, file, line), "diagnostic-at-the-declaration")
	} else {
		vrt.Reach("accepted")
	}
}

// H_TokenName3: a three-byte token name (letters, digits, underscore).
func H_TokenName3() {
	b0, b1, b2 := vrt.Byte("n0"), vrt.Byte("n1"), vrt.Byte("n2")
	for _, b := range []byte{b0, b1, b2} {
		vrt.Assume(vrt.Or(vAlnum(b), b == '_'))
	}
	name := string([]byte{b0, b1, b2})
	ok, text := vRun([]byte("@lexer\nAB = 'a'\n" + name + " = 'x'\n@macro MC = 'm'\n@mode MD {\nCD = 'c'\n}\n@parser\n@start st = AB\n"))
	// documented rules: upper-case letter first, then upper-case letters, digits
	// and underscores, not ending in an underscore, no two underscores in a row;
	// not one of the reserved names (EOF is the only three-letter one)
	mid := vrt.Or(vUpper(b1), vrt.Or(vDigit(b1), b1 == '_'))
	last := vrt.Or(vUpper(b2), vDigit(b2))
	wellFormed := vrt.And(vUpper(b0), vrt.And(mid, last))
	wellFormed = vrt.And(wellFormed, vrt.Not(vrt.And(b0 == 'E', vrt.And(b1 == 'O', b2 == 'F'))))
	vrt.Assert(vrt.Iff(ok, wellFormed), "accepted-iff-well-formed")
	if !ok {
		vrt.Reach("rejected")
		vrt.Assert(vMentionsLine(text, 0, 3), "diagnostic-at-the-declaration")
	} else {
		vrt.Reach("accepted")
	}
}

// H_ClassRange: [lo-hi] with lo, hi arbitrary letters or digits: accepted iff
// lo <= hi; a rejection names the declaration's line.
func H_ClassRange() {
	place := vrt.Param("place", 0)
	lo, hi := vrt.Byte("lo"), vrt.Byte("hi")
	vrt.Assume(vAlnum(lo))
	vrt.Assume(vAlnum(hi))
	cls := "[" + string([]byte{lo}) + "-" + string([]byte{hi}) + "]"
	var ok bool
	var text string
	line := 0
	switch place {
	case 0:
		ok, text = vRun([]byte("@lexer\nAB = 'a'\nCL = " + cls + "+ 'x'\n@parser\n@start st = AB\n"))
		line = 3
	case 1:
		ok, text = vRun([]byte("@lexer\nAB = 'a'\n@macro MC = " + cls + "\nCL = MC 'x'\n@parser\n@start st = AB\n"))
		line = 3
	default:
		ok, text = vRun([]byte("@lexer\nAB = 'a'\n@mode MD {\nCL = ~" + cls + " - [q]\n}\n@parser\n@start st = AB\n"))
		line = 4
	}
	vrt.Assert(vrt.Iff(ok, lo <= hi), "accepted-iff-lower-not-above-upper")
	if !ok {
		vrt.Reach("rejected")
		vrt.Assert(vMentionsLine(text, 0, line), "diagnostic-at-the-declaration")
	} else {
		vrt.Reach("accepted")
	}
}

// H_Reference: a two-byte name in a referencing position: accepted iff it
// names something of the right kind.
func H_Reference() {
	place := vrt.Param("place", 0)
	b0, b1 := vrt.Byte("n0"), vrt.Byte("n1")
	vrt.Assume(vrt.Or(vAlnum(b0), b0 == '_'))
	vrt.Assume(vrt.Or(vAlnum(b1), b1 == '_'))
	name := string([]byte{b0, b1})
	base := "@lexer\nAB = 'a'\n@external EX\n@macro MC = 'm'\n@mode MD {\nCD = 'c' @pop_mode\n}\n"
	var ok bool
	var text string
	var valid bool
	line := 0
	switch place {
	case 0: // @emit(name): a token
		ok, text = vRun([]byte(base + "@frag 'q' @emit(" + name + ")\n@parser\n@start st = AB\n"))
		valid = vrt.Or(vIs(b0, b1, "AB"), vIs(b0, b1, "CD"))
		line = 8
	case 1: // @push_mode(name): a mode
		ok, text = vRun([]byte(base + "PM = 'p' @push_mode(" + name + ")\n@parser\n@start st = AB\n"))
		valid = vIs(b0, b1, "MD")
		line = 8
	case 2: // macro reference in a lexer expression
		ok, text = vRun([]byte(base + "RF = 'r' " + name + "\n@parser\n@start st = AB\n"))
		valid = vIs(b0, b1, "MC")
		line = 8
	default: // term of a parser production: a token (also an @external one) or a rule
		ok, text = vRun([]byte(base + "@parser\n@start st = AB " + name + "\nru = AB\n"))
		valid = vrt.Or(vIs(b0, b1, "AB"), vrt.Or(vIs(b0, b1, "CD"), vrt.Or(vIs(b0, b1, "EX"), vrt.Or(vIs(b0, b1, "ru"), vIs(b0, b1, "st")))))
		line = 9
	}
	vrt.Assert(vrt.Iff(ok, valid), "accepted-iff-reference-defined")
	if !ok {
		vrt.Reach("rejected")
		vrt.Assert(vMentionsLine(text, 0, line), "diagnostic-at-the-reference")
	} else {
		vrt.Reach("accepted")
	}
}

var vHexTemplates = []string{
	"@lexer\nA = '\\x##'\nB = 'b'\n@parser\n@start s = A B\n",
	"@lexer\nA = '\\u####'\nB = 'b'\n@parser\n@start s = A B\n",
	"@lexer\nA = '\\U##0000##'\nB = 'b'\n@parser\n@start s = A B\n",
	"@lexer\nA = [a\\U##10FF##]+\nB = '!'\n@parser\n@start s = A B\n",
	"@lexer\nA = [\\x#0-\\u00##]\nB = '!'\n@parser\n@start s = A B\n",
}

// H_HexHoles (C12): escapes whose hex digits are arbitrary hexadecimal digits.
func H_HexHoles() {
	tpl := vrt.Param("tpl", 0)
	text := vHexTemplates[tpl]
	data := vFill(text, "x")
	for i := range data {
		if text[i] == '#' {
			d := data[i]
			vrt.Assume(vrt.Or(vrt.And(d >= '0', d <= '9'), vrt.Or(vrt.And(d >= 'a', d <= 'f'), vrt.And(d >= 'A', d <= 'F'))))
		}
	}
	vFrontEnd(data)
}

// H_AliasAmbiguity (C17): a parser term refers to a token by its literal 'x'.
// With one token spelled 'x' it is accepted; as soon as two or three tokens
// (in different modes) are spelled 'x' the reference is ambiguous and must be
// rejected at the reference. The hole is the literal of the last token.
func H_AliasAmbiguity() {
	others := vrt.Param("others", 0) // further tokens already spelled 'x'
	h := vrt.Byte("lit")
	vrt.Assume(vAlnum(h))
	// the second hole is what follows the literal of TB: a blank (TB is a simple
	// literal and defines the alias) or a cardinality (it does not: "a literal
	// may be used in the parser only when the token definition is a simple
	// literal")
	card := vrt.Byte("card")
	vrt.Assume(vrt.Or(vrt.Or(card == ' ', card == '+'), vrt.Or(card == '*', card == '?')))
	text := "@lexer\nTA = 'q'\nTB = '" + string([]byte{h}) + "'" + string([]byte{card}) + "\n"
	// a token spelled 'x' with a cardinality never counts
	switch vrt.Param("rep", 0) {
	case 1:
		text += "TR = 'x'+\n"
	case 2:
		text += "TR = 'x'*\n"
	}
	if others >= 1 {
		text += "@mode MA {\nTC = 'x' @pop_mode\n}\n"
	}
	if others >= 2 {
		text += "@mode MB {\nTD = 'x' @pop_mode\n}\n"
	}
	lines := 1
	for i := 0; i < len(text); i++ {
		if text[i] == '\n' {
			lines++
		}
	}
	text += "@parser\n@start st = TA 'x'\n"
	ok, diag := vRun([]byte(text))
	count := others
	unique := false
	if h == 'x' && card == ' ' {
		count++
	}
	unique = count == 1
	vrt.Assert(vrt.Iff(ok, unique), "accepted-iff-literal-names-exactly-one-token")
	if !ok {
		vrt.Reach("rejected")
		vrt.Assert(vMentionsLine(diag, 0, lines+1), "diagnostic-at-the-reference")
	} else {
		vrt.Reach("accepted")
	}
}

// ---- C13: the lexer emitter under an arbitrary map order ----

const vModes4 = `@lexer
A = 'a' @push_mode(M1)
B = 'b' @push_mode(M2)
@mode M1 {
C = 'c' @push_mode(M3)
C1 = 'x' @pop_mode
}
@mode M2 {
D = 'd' @pop_mode
}
@mode M3 {
E = 'e' @pop_mode
}

@parser
@start s = A
`

// vEmitLexer runs the real EmitLexer. Under symgo the template engine is
// stubbed (jet is reflection all the way down): the closures EmitLexer hands to
// it are fetched back and called in the order the template calls them (modes(),
// then mode_table(m) for each); natively the real engine renders and the file is
// read back.
func vEmitLexer(c *context) string {
	c.GoPackageName, c.GoPackagePath = "p", "example.com/p"
	ok := c.EmitLexer()
	vrt.Assert(ok, "emit-lexer-succeeds")
	if vrt.Symbolic() {
		modes := vrt.HostVar("modes").(func() []*mode.Mode)
		table := vrt.HostVar("mode_table").(func(*mode.Mode) string)
		s := ""
		for _, m := range modes() {
			s += m.Name + vrt.Name("#", m.Index) + "=" + table(m) + ";"
		}
		return s
	}
	data, err := os.ReadFile(c.Dir + "/" + lexerGenGo)
	if err != nil {
		return "unreadable"
	}
	return string(data)
}

// H_EmitLexerOrder (C13): what EmitLexer emits does not depend on the order in
// which built-in maps iterate.
func H_EmitLexerOrder() {
	dir := vrt.TempDir()
	defer vrt.RemoveAll(dir)
	vrt.WriteFile(dir+"/f0.lox", []byte(vModes4))
	fset := gotoken.NewFileSet()
	c := &context{Fset: fset, Errs: errlogger.New(fset, &vSink{}), Dir: dir}
	if !c.ParseLox() {
		vrt.Assert(false, "specification-accepted")
		return
	}
	a := vEmitLexer(c)
	vrt.MapOrder(1)
	b := vEmitLexer(c)
	vrt.MapOrder(0)
	vrt.Assert(a == b, "emitted-lexer-independent-of-map-order")
	vrt.Reach("emitted")
}
