//vrt:target internal/codegen/zz_verif_fe_h.go

package codegen

import (
	gotoken "go/token"

	"github.com/dcaiafa/lox/internal/base/errlogger"
	"github.com/dcaiafa/lox/zz_verif/vrt"
)

// vSink counts what the error logger prints.
type vSink struct {
	writes int
	bytes  int
}

func (s *vSink) Write(p []byte) (int, error) {
	s.writes++
	s.bytes += len(p)
	return len(p), nil
}

// vFrontEnd runs the real ParseLox (parser.Parse, ast.Analyze, mode building,
// ConstructLALR) on in-memory files and checks the C12 contract: either a
// complete result, or at least one diagnostic.
func vFrontEnd(files ...[]byte) (ok bool) {
	dir := vrt.TempDir()
	defer vrt.RemoveAll(dir)
	for i, data := range files {
		vrt.WriteFile(dir+"/"+vrt.Name("f", i)+".lox", data)
	}
	fset := gotoken.NewFileSet()
	sink := &vSink{}
	c := &context{Fset: fset, Errs: errlogger.New(fset, sink), Dir: dir}
	ok = c.ParseLox()
	if ok {
		vrt.Reach("accepted")
		vrt.Assert(!c.Errs.HasError(), "success-without-errors")
		vrt.Assert(c.ParserGrammar != nil && c.ParserTable != nil && c.LexerModes != nil, "success-has-grammar-table-modes")
		vrt.Assert(!c.ParserTable.HasConflicts, "success-without-conflicts")
	} else {
		vrt.Reach("rejected")
		vrt.Assert(sink.writes > 0 && sink.bytes > 0, "rejection-prints-a-diagnostic")
		vrt.Assert(c.Errs.HasError(), "rejection-sets-error-flag")
	}
	return ok
}

const vSmall = `@lexer
A = 'a'
NUM = [0-9]+
@frag ' '+ @discard

@parser
@start s = e
e = e A e @left(1)
  | NUM
`

// H_FrontEndConcrete: engine smoke test on a fixed specification.
func H_FrontEndConcrete() {
	ok := vFrontEnd([]byte(vSmall))
	vrt.Assert(ok, "small-grammar-accepted")
}

// vFill replaces every '#' of the template by an arbitrary byte.
func vFill(tpl string, prefix string) []byte {
	out := make([]byte, len(tpl))
	k := 0
	for i := 0; i < len(tpl); i++ {
		if tpl[i] == '#' {
			out[i] = vrt.Byte(vrt.Name(prefix, k))
			k++
		} else {
			out[i] = tpl[i]
		}
	}
	return out
}

var vTemplates = []string{
	// 0: precedence digits
	"@lexer\nA = 'a'\nN = [0-9]+\n@parser\n@start e = e A e @left(##)\n | N\n",
	// 1: literal body
	"@lexer\nA = '###'\nB = 'b'\n@parser\n@start s = A B\n",
	// 2: class body
	"@lexer\nA = [###]\nB = 'b'\n@parser\n@start s = A B\n",
	// 3: token name
	"@lexer\n## = 'a'\nB = 'b'\n@parser\n@start s = B\n",
	// 4: mode name argument
	"@lexer\nA = 'a' @push_mode(##)\n@mode M {\nB = 'b' @pop_mode\n}\n@parser\n@start s = A B\n",
	// 5: raw bytes at statement level (lexer section)
	"@lexer\nA = 'a'\n###\n@parser\n@start s = A\n",
	// 6: raw bytes at statement level (parser section)
	"@lexer\nA = 'a'\n@parser\n@start s = A\n###\n",
	// 7: @emit argument
	"@lexer\nA = 'a'\n@frag 'q' @emit(##)\n@parser\n@start s = A\n",
	// 8: term reference in the parser
	"@lexer\nA = 'a'\n@parser\n@start s = A ##\n",
	// 9: cardinality / qualifier position
	"@lexer\nA = 'a'\n@parser\n@start s = A## A\n",
	// 10: lexer operator position
	"@lexer\nA = 'a'## 'b'\n@parser\n@start s = A\n",
	// 11: right qualifier with one digit and sign position
	"@lexer\nA = 'a'\nN = 'n'\n@parser\n@start e = e A e @right(#)\n | N\n",
}

// H_Holes (C12): ParseLox on a template whose holes are arbitrary bytes. With
// parameter holes=k only the first k '#' are holes, the others are dropped.
func H_Holes() {
	tpl := vrt.Param("tpl", 0)
	k := vrt.Param("holes", 9)
	text := ""
	seen := 0
	for i := 0; i < len(vTemplates[tpl]); i++ {
		c := vTemplates[tpl][i]
		if c == '#' {
			seen++
			if seen > k {
				continue
			}
		}
		text += string(c)
	}
	vFrontEnd(vFill(text, "h"))
}

// H_Digits (C12): a precedence of n arbitrary decimal digits.
func H_Digits() {
	n := vrt.Param("digits", 3)
	text := "@lexer\nA = 'a'\nN = 'n'\n@parser\n@start e = e A e @left("
	for i := 0; i < n; i++ {
		text += "#"
	}
	text += ")\n | N\n"
	data := vFill(text, "d")
	for i := range data {
		if text[i] == '#' {
			vrt.Assume(vrt.And(data[i] >= '0', data[i] <= '9'))
		}
	}
	vFrontEnd(data)
}

var vSecondFile = []string{
	"@lexer\nC = '#'\n",
	"@lexer\n# = 'c'\n",
	"@lexer\n@mode # {\nC = 'c'\n}\n",
}

// H_HolesTwoFiles (C12): the hole sits in a second file.
func H_HolesTwoFiles() {
	tpl := vrt.Param("tpl", 0)
	first := "@lexer\nA = 'a'\nB = 'b'\n@mode M {\nD = 'd'\n}\n@parser\n@start s = A B\n"
	vFrontEnd([]byte(first), vFill(vSecondFile[tpl], "h"))
}
