//vrt:target zz_verif/kern/kern.go

// Package kern holds harnesses that validate the engine's own models.
package kern

import (
	"unicode/utf8"

	"github.com/dcaiafa/lox/zz_verif/vrt"
)

// H_DecodeRune: the engine's model of utf8.DecodeRune agrees with the real
// function (run from its SSA, model switched off) on every byte string of the
// given length.
func H_DecodeRune() {
	n := vrt.Param("n", 4)
	b := make([]byte, n)
	for i := range b {
		b[i] = vrt.Byte(vrt.Name("b", i))
	}
	r1, w1 := utf8.DecodeRune(b)
	r2, w2 := vrt.ModelDecodeRune(b)
	vrt.Assert(w1 == w2, "width")
	vrt.Assert(r1 == r2, "rune")
	if w1 == 4 {
		vrt.Reach("four-bytes")
	}
	if r1 == utf8.RuneError && w1 == 1 {
		vrt.Reach("invalid")
	}
}
