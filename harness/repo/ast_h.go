//vrt:target internal/ast/zz_verif_h.go

package ast

import (
	"github.com/dcaiafa/lox/internal/lexergen/rang3"
	"github.com/dcaiafa/lox/zz_verif/vrt"
)

func vItem(name string) *CharClassItem {
	b := vrt.Rune(name + ".from")
	e := vrt.Rune(name + ".to")
	vrt.Assume(vrt.And(vrt.And(b >= 0, b <= e), e <= rang3.MaxRune))
	return &CharClassItem{From: b, To: e}
}

func vClass(prefix string, k int) *CharClass {
	c := &CharClass{Neg: vrt.Bool(prefix + ".neg")}
	for i := 0; i < k; i++ {
		c.CharClassItems = append(c.CharClassItems, vItem(vrt.Name(prefix, i)))
	}
	return c
}

func vInItems(c rune, cls *CharClass) bool {
	r := false
	for _, it := range cls.CharClassItems {
		r = vrt.Or(r, vrt.And(it.From <= c, c <= it.To))
	}
	return r
}

// meaning of a class: union of its items, complemented over 0..U+10FFFF when negated
func vMeans(c rune, cls *CharClass) bool {
	in := vInItems(c, cls)
	return vrt.IteBool(cls.Neg, vrt.Not(in), in)
}

func vInRanges(c rune, rs []rang3.Range) bool {
	r := false
	for _, x := range rs {
		r = vrt.Or(r, vrt.And(x.B <= c, c <= x.E))
	}
	return r
}

func vSortedDisjoint(rs []rang3.Range, id string) {
	for i := range rs {
		vrt.Assert(vrt.And(0 <= rs[i].B, vrt.And(rs[i].B <= rs[i].E, rs[i].E <= rang3.MaxRune)), id)
		if i > 0 {
			vrt.Assert(rs[i-1].E < rs[i].B, id)
		}
	}
}

// H_ClassRanges (C15): [..] and ~[..] with k arbitrary items denote exactly
// their set-theoretic meaning; the result is sorted and disjoint.
func H_ClassRanges() {
	k := vrt.Param("k", 2)
	cls := vClass("a", k)
	c := vrt.Rune("c")
	vrt.Assume(vrt.And(c >= 0, c <= rang3.MaxRune))
	rs := cls.GetRanges()
	vrt.Assert(vrt.Iff(vInRanges(c, rs), vMeans(c, cls)), "class-denotes-its-set")
	vSortedDisjoint(rs, "class-ranges-sorted-disjoint")
	if cls.Neg {
		vrt.Reach("negated")
	} else {
		vrt.Reach("plain")
	}
}

// H_ClassDifference (C15): [..] - [..] (either side possibly negated).
func H_ClassDifference() {
	ka := vrt.Param("ka", 1)
	kb := vrt.Param("kb", 1)
	l := vClass("l", ka)
	r := vClass("r", kb)
	e := &CharClassBinaryExpr{Op: CharClassBinaryExprSub, Left: l, Right: r}
	c := vrt.Rune("c")
	vrt.Assume(vrt.And(c >= 0, c <= rang3.MaxRune))
	rs := e.GetRanges()
	vrt.Assert(vrt.Iff(vInRanges(c, rs), vrt.And(vMeans(c, l), vrt.Not(vMeans(c, r)))), "difference-denotes-its-set")
	vSortedDisjoint(rs, "difference-ranges-sorted-disjoint")
	vrt.Reach("difference")
}
