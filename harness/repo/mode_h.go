//vrt:target internal/lexergen/mode/zz_verif_h.go

package mode

import (
	"fmt"
	gotoken "go/token"
	"io"

	"github.com/dcaiafa/lox/internal/base/errlogger"
	"github.com/dcaiafa/lox/internal/lexergen/dfa"
	"github.com/dcaiafa/lox/internal/lexergen/rang3"
	"github.com/dcaiafa/lox/zz_verif/vrt"
)

// vShapes are small rule sets: each rule is a sequence of classes, each class a
// list of ranges (overlapping, nested, touching).
var vShapes = [][][][]rang3.Range{
	{ // keyword / identifier overlap
		{{{'i', 'i'}}, {{'f', 'f'}}},
		{{{'a', 'z'}}, {{'a', 'z'}}},
	},
	{ // overlapping and nested classes
		{{{'a', 'm'}}},
		{{{'k', 'z'}}},
		{{{'c', 'd'}, {'x', 'y'}}},
	},
	{ // touching, full range, astral
		{{{0, 'a'}}},
		{{{'b', 0x10FFFF}}},
		{{{0, 0x10FFFF}}},
		{{{'a', 'b'}}},
	},
}

func vBuild(shape int) string {
	fset := gotoken.NewFileSet()
	file := fset.AddFile("x.lox", -1, 1000)
	errs := errlogger.New(fset, io.Discard)
	mb := New("m")
	for ri, rule := range vShapes[shape] {
		b := mb.StateFactory.NewState()
		cur := b
		for _, class := range rule {
			next := mb.StateFactory.NewState()
			for _, r := range class {
				cur.AddTransition(next, r)
			}
			cur = next
		}
		cur.Accept = true
		cur.Data = &Actions{Pos: file.Pos(10 * (ri + 1)), Actions: []Action{{Type: ActionAccept, Terminal: ri + 2}}}
		mb.AddRule(NFAComposite{B: b, E: cur})
	}
	m := mb.Build(errs, fset)
	if m == nil {
		return "nil"
	}
	s := ""
	for _, st := range m.DFA.States {
		s += fmt.Sprintf("S%d a=%v ng=%v", st.ID, st.Accept, st.NonGreedy)
		if acts, ok := st.Data.(*Actions); ok && acts != nil {
			s += fmt.Sprintf(" act=%d", acts.Actions[0].Terminal)
		}
		st.Transitions.ForEach(func(in any, to *dfa.State) {
			r := in.(rang3.Range)
			s += fmt.Sprintf(" [%d-%d>%d]", r.B, r.E, to.ID)
		})
		s += ";"
	}
	return s
}

// H_BuildOrder (C13): ModeBuilder.Build (normalizeInputs, NFAToDFA, optimize,
// mergeTransitions, pickAction) gives the same DFA whatever order built-in maps
// iterate in.
func H_BuildOrder() {
	shape := vrt.Param("shape", 0)
	vrt.MapOrder(0)
	a := vBuild(shape)
	vrt.MapOrder(1)
	b := vBuild(shape)
	vrt.MapOrder(0)
	vrt.Observe("dfa", a)
	vrt.Assert(a == b, "dfa-independent-of-map-order")
	vrt.Reach("built")
}
