//vrt:target internal/lexergen/mode/zz_verif_h.go

package mode

import (
	"fmt"
	gotoken "go/token"
	"io"

	"github.com/dcaiafa/lox/internal/base/array"
	"github.com/dcaiafa/lox/internal/base/errlogger"
	"github.com/dcaiafa/lox/internal/lexergen/dfa"
	"github.com/dcaiafa/lox/internal/lexergen/nfa"
	"github.com/dcaiafa/lox/internal/lexergen/rang3"
	"github.com/dcaiafa/lox/zz_verif/vrt"
)

// vShapes are small rule sets: each rule is a sequence of classes, each class a
// list of ranges (overlapping, nested, touching).
var vShapes = [][][][]rang3.Range{
	{ // keyword / identifier overlap
		{{{'i', 'i'}}, {{'f', 'f'}}},
		{{{'a', 'z'}}, {{'a', 'z'}}},
	},
	{ // overlapping and nested classes
		{{{'a', 'm'}}},
		{{{'k', 'z'}}},
		{{{'c', 'd'}, {'x', 'y'}}},
	},
	{ // touching, full range, astral
		{{{0, 'a'}}},
		{{{'b', 0x10FFFF}}},
		{{{0, 0x10FFFF}}},
		{{{'a', 'b'}}},
	},
}

func vBuild(shape int) string {
	fset := gotoken.NewFileSet()
	file := fset.AddFile("x.lox", -1, 1000)
	errs := errlogger.New(fset, io.Discard)
	mb := New("m")
	for ri, rule := range vShapes[shape] {
		b := mb.StateFactory.NewState()
		cur := b
		for _, class := range rule {
			next := mb.StateFactory.NewState()
			for _, r := range class {
				cur.AddTransition(next, r)
			}
			cur = next
		}
		cur.Accept = true
		cur.Data = &Actions{Pos: file.Pos(10 * (ri + 1)), Actions: []Action{{Type: ActionAccept, Terminal: ri + 2}}}
		mb.AddRule(NFAComposite{B: b, E: cur})
	}
	m := mb.Build(errs, fset)
	if m == nil {
		return "nil"
	}
	s := ""
	for _, st := range m.DFA.States {
		s += fmt.Sprintf("S%d a=%v ng=%v", st.ID, st.Accept, st.NonGreedy)
		if acts, ok := st.Data.(*Actions); ok && acts != nil {
			s += fmt.Sprintf(" act=%d", acts.Actions[0].Terminal)
		}
		st.Transitions.ForEach(func(in any, to *dfa.State) {
			r := in.(rang3.Range)
			s += fmt.Sprintf(" [%d-%d>%d]", r.B, r.E, to.ID)
		})
		s += ";"
	}
	return s
}

// H_BuildOrder (C13): ModeBuilder.Build (normalizeInputs, NFAToDFA, optimize,
// mergeTransitions, pickAction) gives the same DFA whatever order built-in maps
// iterate in.
func H_BuildOrder() {
	shape := vrt.Param("shape", 0)
	vrt.MapOrder(0)
	a := vBuild(shape)
	vrt.MapOrder(1)
	b := vBuild(shape)
	vrt.MapOrder(0)
	vrt.Observe("dfa", a)
	vrt.Assert(a == b, "dfa-independent-of-map-order")
	vrt.Reach("built")
}

// H_NormalizeInputs (C15): k transitions on arbitrary ranges from one NFA state
// to k distinct targets. After normalizeInputs, for every code point the set of
// targets reachable on it is unchanged, and the ranges on the state are
// pairwise equal or disjoint.
func H_NormalizeInputs() {
	k := vrt.Param("k", 2)
	mb := New("m")
	start := mb.StateFactory.NewState()
	ranges := make([]rang3.Range, k)
	for i := 0; i < k; i++ {
		b := vrt.Rune(vrt.Name("b", i))
		e := vrt.Rune(vrt.Name("e", i))
		vrt.Assume(vrt.And(vrt.And(b >= 0, b <= e), e <= rang3.MaxRune))
		ranges[i] = rang3.Range{B: b, E: e}
	}
	// one intermediate state per rule, as Build does (start -ε-> rule.B -range-> target)
	targets := make([]uint32, k)
	for i := 0; i < k; i++ {
		rb := mb.StateFactory.NewState()
		t := mb.StateFactory.NewState()
		targets[i] = t.ID
		rb.AddTransition(t, ranges[i])
		start.AddTransition(rb, nfaEpsilon())
	}
	normalizeInputs(start)
	c := vrt.Rune("c")
	vrt.Assume(vrt.And(c >= 0, c <= rang3.MaxRune))
	// reachable targets on c after normalisation, per rule state
	reach := make([]bool, k)
	var all []rang3.Range
	i := 0
	start.Transitions.ForEach(func(in any, tos *arrayOfStates) {
		for _, rb := range tos.Elements() {
			idx := i
			i++
			rb.Transitions.ForEach(func(in2 any, tos2 *arrayOfStates) {
				r, ok := in2.(rang3.Range)
				if !ok {
					return
				}
				all = append(all, r)
				hit := vrt.And(r.B <= c, c <= r.E)
				for _, t := range tos2.Elements() {
					vrt.Assert(t.ID == targets[idx], "transition-keeps-its-target")
				}
				reach[idx] = vrt.Or(reach[idx], hit)
			})
		}
	})
	for j := 0; j < k; j++ {
		want := vrt.And(ranges[j].B <= c, c <= ranges[j].E)
		vrt.Assert(vrt.Iff(reach[j], want), "class-is-the-exact-union-of-its-pieces")
	}
	for x := 0; x < len(all); x++ {
		for y := x + 1; y < len(all); y++ {
			p, q := all[x], all[y]
			vrt.Assert(vrt.Or(p == q, vrt.Or(p.E < q.B, q.E < p.B)), "pieces-equal-or-disjoint")
		}
	}
	if len(all) > k {
		vrt.Reach("split")
	}
}

type arrayOfStates = array.Array[*nfa.State]

func nfaEpsilon() any { return nfa.Epsilon }
