//vrt:target internal/codegen/zz_verif_h.go

package codegen

import "github.com/dcaiafa/lox/zz_verif/vrt"

// vTableRoundTrip: rows with symbolic cells are added at increasing indices
// (pattern of gaps chosen by the "gaps" parameter bit mask); decoding Array()
// by the documented layout must return exactly the rows, missing indices must
// decode as -1, every index cell must point inside the array, and two indices
// may share a row only if the rows are equal.
func vTableRoundTrip[E int32 | uint32](mk func(name string) E) {
	nrows := vrt.Param("rows", 2)
	ncells := vrt.Param("cells", 2)
	gaps := vrt.Param("gaps", 0)
	t := newTable[E]()
	rows := make([][]E, nrows)
	index := make([]int, nrows)
	next := 0
	for i := 0; i < nrows; i++ {
		if gaps&(1<<i) != 0 {
			next++ // leave a hole before this row
		}
		index[i] = next
		next++
		n := ncells
		if i == 1 && ncells > 0 {
			n = ncells - 1 // one row of a different length
		}
		rows[i] = make([]E, n)
		for j := range rows[i] {
			rows[i][j] = mk(vrt.Name(vrt.Name("c", i)+"_", j))
		}
		t.AddRow(index[i], rows[i])
	}
	arr := t.Array()
	max := index[nrows-1]
	vrt.Assert(len(arr) >= max+1, "index-section-present")
	offs := make([]int, nrows)
	ri := 0
	for k := 0; k <= max; k++ {
		cell := int(int32(arr[k]))
		if ri < nrows && index[ri] == k {
			// documented layout: arr[k] = offset of [len, cells...]
			vrt.Assert(cell >= max+1 && cell < len(arr), "index-inside-table")
			off := cell
			offs[ri] = off
			vrt.Assert(int(arr[off]) == len(rows[ri]), "row-length")
			vrt.Assert(off+len(rows[ri]) < len(arr), "row-inside-table")
			for j := range rows[ri] {
				vrt.Assert(arr[off+1+j] == rows[ri][j], "row-cell")
			}
			ri++
		} else {
			vrt.Assert(cell == -1, "missing-index-is-minus-one")
			vrt.Reach("hole")
		}
	}
	for a := 0; a < nrows; a++ {
		for b := a + 1; b < nrows; b++ {
			if offs[a] == offs[b] {
				vrt.Reach("shared-row")
				same := len(rows[a]) == len(rows[b])
				if same {
					eq := true
					for j := range rows[a] {
						eq = vrt.And(eq, rows[a][j] == rows[b][j])
					}
					vrt.Assert(eq, "shared-rows-are-equal")
				} else {
					vrt.Assert(false, "shared-rows-are-equal")
				}
			} else {
				vrt.Reach("distinct-rows")
			}
		}
	}
}

func H_TableInt32() {
	vTableRoundTrip[int32](func(name string) int32 { return vrt.Int32(name) })
}

func H_TableUint32() {
	vTableRoundTrip[uint32](func(name string) uint32 { return vrt.Uint32(name) })
}

// H_TableAdversarial (C10, concrete): pairs of different rows that collide
// under plausible but wrong row keys (decimal or hexadecimal concatenation
// without separators, sums, permutations, a row that is a prefix of the other,
// sign, length-prefixed forms). Every pair goes into a fresh table; both rows
// must decode to themselves.
func H_TableAdversarial() {
	pairs := [][2][]int32{
		{{2, 138}, {21, 38}},
		{{1, 23}, {12, 3}},
		{{0, 1, 97, 97, 12}, {0, 1, 97, 971, 2}},
		{{1, 2}, {2, 1}},
		{{1, 2}, {12}},
		{{1, 2}, {1, 2, 0}},
		{{0, 5}, {5}},
		{{3, 4}, {4, 3}},
		{{1, 6}, {2, 5}},
		{{-1, 1}, {1, -1}},
		{{1, -1}, {1, 1}},
		{{16, 1}, {1, 97}},
		{{255, 1}, {15, 241}},
		{{128}, {1, 0}},
		{{127, 1}, {255}},
		{{300}, {44, 1}},
		{{1, 10}, {11, 0}},
		{{10, 0}, {1, 0, 0}},
		{{2147483647}, {-1}},
		{{65536}, {1, 0, 0}},
	}
	for pi, pr := range pairs {
		t := newTable[int32]()
		t.AddRow(0, pr[0])
		t.AddRow(1, pr[1])
		arr := t.Array()
		for i := 0; i < 2; i++ {
			off := int(arr[i])
			ok := off >= 2 && off < len(arr) && int(arr[off]) == len(pr[i]) && off+len(pr[i]) < len(arr)
			if ok {
				for j := range pr[i] {
					ok = ok && arr[off+1+j] == pr[i][j]
				}
			}
			vrt.Observe("pair", pi)
			vrt.Assert(ok, "different-rows-decode-to-themselves")
		}
	}
	vrt.Reach("pairs-checked")
}
