//vrt:target internal/codegen/zz_verif_h.go

package codegen

import "github.com/dcaiafa/lox/zz_verif/vrt"

// vTableRoundTrip: rows with symbolic cells are added at increasing indices
// (pattern of gaps chosen by the "gaps" parameter bit mask); decoding Array()
// by the documented layout must return exactly the rows, missing indices must
// decode as -1, every index cell must point inside the array, and two indices
// may share a row only if the rows are equal.
func vTableRoundTrip[E int32 | uint32](mk func(name string) E) {
	nrows := vrt.Param("rows", 2)
	ncells := vrt.Param("cells", 2)
	gaps := vrt.Param("gaps", 0)
	t := newTable[E]()
	rows := make([][]E, nrows)
	index := make([]int, nrows)
	next := 0
	for i := 0; i < nrows; i++ {
		if gaps&(1<<i) != 0 {
			next++ // leave a hole before this row
		}
		index[i] = next
		next++
		n := ncells
		if i == 1 && ncells > 0 {
			n = ncells - 1 // one row of a different length
		}
		rows[i] = make([]E, n)
		for j := range rows[i] {
			rows[i][j] = mk(vrt.Name(vrt.Name("c", i)+"_", j))
		}
		t.AddRow(index[i], rows[i])
	}
	arr := t.Array()
	max := index[nrows-1]
	vrt.Assert(len(arr) >= max+1, "index-section-present")
	offs := make([]int, nrows)
	ri := 0
	for k := 0; k <= max; k++ {
		cell := int(int32(arr[k]))
		if ri < nrows && index[ri] == k {
			// documented layout: arr[k] = offset of [len, cells...]
			vrt.Assert(cell >= max+1 && cell < len(arr), "index-inside-table")
			off := cell
			offs[ri] = off
			vrt.Assert(int(arr[off]) == len(rows[ri]), "row-length")
			vrt.Assert(off+len(rows[ri]) < len(arr), "row-inside-table")
			for j := range rows[ri] {
				vrt.Assert(arr[off+1+j] == rows[ri][j], "row-cell")
			}
			ri++
		} else {
			vrt.Assert(cell == -1, "missing-index-is-minus-one")
			vrt.Reach("hole")
		}
	}
	for a := 0; a < nrows; a++ {
		for b := a + 1; b < nrows; b++ {
			if offs[a] == offs[b] {
				vrt.Reach("shared-row")
				same := len(rows[a]) == len(rows[b])
				if same {
					eq := true
					for j := range rows[a] {
						eq = vrt.And(eq, rows[a][j] == rows[b][j])
					}
					vrt.Assert(eq, "shared-rows-are-equal")
				} else {
					vrt.Assert(false, "shared-rows-are-equal")
				}
			} else {
				vrt.Reach("distinct-rows")
			}
		}
	}
}

func H_TableInt32() {
	vTableRoundTrip[int32](func(name string) int32 { return vrt.Int32(name) })
}

func H_TableUint32() {
	vTableRoundTrip[uint32](func(name string) uint32 { return vrt.Uint32(name) })
}
