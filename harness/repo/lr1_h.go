//vrt:target internal/parsergen/lr1/zz_verif_h.go

package lr1

import "github.com/dcaiafa/lox/zz_verif/vrt"

// vQual gives a production an arbitrary precedence (any int; <= 0 means "no
// qualifier", which is how the front end leaves unqualified productions) and an
// arbitrary associativity.
// vSetInt stores v into an integer field of whatever integer type it has (the
// harness must keep compiling if the field's type is refactored).
func vSetInt[T ~int | ~int8 | ~int16 | ~int32 | ~int64 | ~uint | ~uint8 | ~uint16 | ~uint32 | ~uint64](dst *T, v int) {
	*dst = T(v)
}

func vQual(p *Prod, name string) {
	vSetInt(&p.Precedence, vrt.Int(name+".prec"))
	p.Associativity = Associativity(vrt.IteInt(vrt.Bool(name+".right"), int(Right), int(Left)))
}

// stateWith finds the state holding the completed item of prod.
func stateWith(t *ParserTable, prod *Prod) *ItemSet {
	for _, s := range t.States {
		for _, it := range s.Items() {
			if it.Prod == prod.Index && it.Dot == len(prod.Terms) {
				return s
			}
		}
	}
	return nil
}

func cellsSingle(t *ParserTable) bool {
	for _, s := range t.States {
		am := t.Actions(s)
		for _, term := range am.Terminals() {
			if am.Get(term).Len() != 1 {
				return false
			}
		}
	}
	return true
}

// H_ResolveBinary: e = e OP1 e | e OP2 e | NUM through the whole of
// ConstructLALR with symbolic qualifiers on both binary productions.
func H_ResolveBinary() {
	g := NewGrammar()
	ops := []*Terminal{g.AddTerminal("OP1"), g.AddTerminal("OP2")}
	num := g.AddTerminal("NUM")
	e := g.AddRule("e")
	g.SetStart(e)
	prods := []*Prod{g.AddProd(e, e, ops[0], e), g.AddProd(e, e, ops[1], e)}
	g.AddProd(e, num)
	vQual(prods[0], "p1")
	vQual(prods[1], "p2")
	t := ConstructLALR(g)
	explicit := vrt.And(prods[0].Precedence > 0, prods[1].Precedence > 0)
	// conflicts are reported exactly when some involved production lacks a qualifier
	vrt.Assert(vrt.Iff(t.HasConflicts, vrt.Not(explicit)), "conflict-verdict")
	if t.HasConflicts {
		vrt.Reach("conflict")
		return
	}
	vrt.Reach("resolved")
	vrt.Assert(cellsSingle(t), "one-action-per-cell")
	// direction of the resolution where the documentation is unambiguous
	for i := 0; i < 2; i++ {
		s := stateWith(t, prods[i])
		for j := 0; j < 2; j++ {
			acts := t.Actions(s).Get(ops[j])
			if acts.Len() != 1 {
				continue
			}
			a := acts.Get(0)
			pi, pj := prods[i].Precedence, prods[j].Precedence
			if pj > pi {
				vrt.Assert(a.Type == ActionShift, "higher-level-operator-shifts")
			}
			if pj < pi {
				vrt.Assert(a.Type == ActionReduce, "lower-level-operator-reduces")
			}
			if pj == pi && i == j && prods[i].Associativity == Left {
				vrt.Assert(a.Type == ActionReduce, "left-assoc-reduces")
			}
		}
	}
}

// H_ResolveDangling: s = IF s | IF s ELSE s | X (one rule): resolved exactly
// when both conflicting productions carry qualifiers.
func H_ResolveDangling() {
	g := NewGrammar()
	tIf, tElse, x := g.AddTerminal("IF"), g.AddTerminal("ELSE"), g.AddTerminal("X")
	s := g.AddRule("s")
	g.SetStart(s)
	p1 := g.AddProd(s, tIf, s)
	p2 := g.AddProd(s, tIf, s, tElse, s)
	p3 := g.AddProd(s, x)
	vQual(p1, "p1")
	vQual(p2, "p2")
	vQual(p3, "p3")
	t := ConstructLALR(g)
	explicit := vrt.And(p1.Precedence > 0, p2.Precedence > 0)
	vrt.Assert(vrt.Iff(t.HasConflicts, vrt.Not(explicit)), "conflict-verdict")
	if !t.HasConflicts {
		vrt.Reach("resolved")
		vrt.Assert(cellsSingle(t), "one-action-per-cell")
	} else {
		vrt.Reach("conflict")
	}
}

// H_ResolveCrossRule: the same conflict spread over two rules is never
// settled by qualifiers.
func H_ResolveCrossRule() {
	g := NewGrammar()
	tIf, tElse, x := g.AddTerminal("IF"), g.AddTerminal("ELSE"), g.AddTerminal("X")
	s, i, w := g.AddRule("s"), g.AddRule("i"), g.AddRule("w")
	g.SetStart(s)
	ps := []*Prod{g.AddProd(s, i), g.AddProd(s, w), g.AddProd(s, x), g.AddProd(i, tIf, s), g.AddProd(w, tIf, s, tElse, s)}
	for k, p := range ps {
		vQual(p, vrt.Name("p", k))
	}
	t := ConstructLALR(g)
	vrt.Assert(t.HasConflicts, "cross-rule-conflict-reported")
	vrt.Reach("conflict")
}

// H_ResolveReduceReduce: s = a X | b X; a = C; b = C is never accepted.
func H_ResolveReduceReduce() {
	g := NewGrammar()
	x, c := g.AddTerminal("X"), g.AddTerminal("C")
	s, a, b := g.AddRule("s"), g.AddRule("a"), g.AddRule("b")
	g.SetStart(s)
	ps := []*Prod{g.AddProd(s, a, x), g.AddProd(s, b, x), g.AddProd(a, c), g.AddProd(b, c)}
	for k, p := range ps {
		vQual(p, vrt.Name("p", k))
	}
	t := ConstructLALR(g)
	vrt.Assert(t.HasConflicts, "reduce-reduce-conflict-reported")
	vrt.Reach("conflict")
}

// H_ResolveSameRuleRR: two identical alternatives in one rule (R/R inside one
// rule, all qualified) must still be reported.
func H_ResolveSameRuleRR() {
	g := NewGrammar()
	c, d := g.AddTerminal("C"), g.AddTerminal("D")
	s, a := g.AddRule("s"), g.AddRule("a")
	g.SetStart(s)
	ps := []*Prod{g.AddProd(s, a, d), g.AddProd(a, c), g.AddProd(a, c)}
	for k, p := range ps {
		vQual(p, vrt.Name("p", k))
	}
	t := ConstructLALR(g)
	vrt.Assert(t.HasConflicts, "same-rule-reduce-reduce-reported")
	vrt.Reach("conflict")
}

// H_ResolveThreeWay: e = e OP e | e OP e OP e | NUM gives a cell with a shift
// and two reduces; it must never be settled silently.
func H_ResolveThreeWay() {
	g := NewGrammar()
	op, num := g.AddTerminal("OP"), g.AddTerminal("NUM")
	e := g.AddRule("e")
	g.SetStart(e)
	ps := []*Prod{g.AddProd(e, e, op, e), g.AddProd(e, e, op, e, op, e), g.AddProd(e, num)}
	for k, p := range ps {
		vQual(p, vrt.Name("p", k))
	}
	t := ConstructLALR(g)
	vrt.Assert(t.HasConflicts, "three-way-conflict-reported")
	vrt.Reach("conflict")
}

// H_KernelKey: two item sets have the same LR0Key exactly when their LR(0)
// kernels (sets of (prod, dot) of kernel items) are equal.
func H_KernelKey() {
	n := vrt.Param("items", 2)
	mk := func(prefix string) (*ItemSet, []Item) {
		s := new(ItemSet)
		var items []Item
		for i := 0; i < n; i++ {
			it := Item{
				Prod:      vrt.Int(vrt.Name(prefix+"p", i)),
				Dot:       vrt.Int(vrt.Name(prefix+"d", i)),
				Lookahead: vrt.Int(vrt.Name(prefix+"l", i)),
			}
			vrt.Assume(vrt.And(it.Prod >= 0, it.Prod < 4))
			vrt.Assume(vrt.And(it.Dot >= 0, it.Dot < 3))
			vrt.Assume(vrt.And(it.Lookahead >= 0, it.Lookahead < 3))
			s.Add(it)
			items = append(items, it)
		}
		return s, items
	}
	a, ia := mk("a")
	b, ib := mk("b")
	kernelHas := func(items []Item, p, d int) bool {
		r := false
		for _, it := range items {
			r = vrt.Or(r, vrt.And(it.IsKernel(), vrt.And(it.Prod == p, it.Dot == d)))
		}
		return r
	}
	same := true
	for p := 0; p < 4; p++ {
		for d := 0; d < 3; d++ {
			same = vrt.And(same, vrt.Iff(kernelHas(ia, p, d), kernelHas(ib, p, d)))
		}
	}
	eq := a.LR0Key() == b.LR0Key()
	vrt.Assert(vrt.Iff(eq, same), "lr0key-iff-equal-kernels")
	if eq {
		vrt.Reach("equal")
	} else {
		vrt.Reach("different")
	}
}

// vTable serialises states, items, actions and transitions.
func vTable(g *Grammar) string {
	t := ConstructLALR(g)
	s := ""
	for _, st := range t.States {
		s += "I" + vrt.Name("", st.Index) + "{"
		for _, it := range st.Items() {
			s += vrt.Name("p", it.Prod) + vrt.Name(".", it.Dot) + vrt.Name(",", it.Lookahead) + " "
		}
		s += "}"
		am := t.Actions(st)
		for _, term := range am.Terminals() {
			for _, a := range am.Get(term).Elements() {
				s += term.Name + ":" + vrt.Name("t", int(a.Type))
				if a.ShiftState != nil {
					s += vrt.Name("s", a.ShiftState.Index)
				}
				for _, p := range a.Prods {
					s += vrt.Name("r", p.Index)
				}
				s += " "
			}
		}
		for _, in := range t.Transitions(st).Inputs() {
			s += in.TermName() + vrt.Name(">", t.Transitions(st).Get(in).Index) + " "
		}
		s += ";"
	}
	return s
}

func vExprGrammar() *Grammar {
	g := NewGrammar()
	plus, mul, lp, rp, num := g.AddTerminal("PLUS"), g.AddTerminal("MUL"), g.AddTerminal("LP"), g.AddTerminal("RP"), g.AddTerminal("NUM")
	e, t, f := g.AddRule("e"), g.AddRule("t"), g.AddRule("f")
	g.SetStart(e)
	g.AddProd(e, e, plus, t)
	g.AddProd(e, t)
	g.AddProd(t, t, mul, f)
	g.AddProd(t, f)
	g.AddProd(f, lp, e, rp)
	g.AddProd(f, num)
	return g
}

// H_ConstructOrder (C13): ConstructLALR gives the same table whatever order
// built-in maps iterate in.
func H_ConstructOrder() {
	vrt.MapOrder(0)
	a := vTable(vExprGrammar())
	vrt.MapOrder(1)
	b := vTable(vExprGrammar())
	vrt.MapOrder(0)
	vrt.Assert(a == b, "table-independent-of-map-order")
	vrt.Reach("built")
}

// H_ResolveSharedShiftCrossRule: expr = expr PLUS expr | incr | NUM ;
// incr = expr PLUS PLUS. The shift on PLUS is backed by productions of two
// rules, so no choice of qualifiers may settle the conflict.
func H_ResolveSharedShiftCrossRule() {
	g := NewGrammar()
	plus, num := g.AddTerminal("PLUS"), g.AddTerminal("NUM")
	expr, incr := g.AddRule("expr"), g.AddRule("incr")
	g.SetStart(expr)
	ps := []*Prod{g.AddProd(expr, expr, plus, expr), g.AddProd(expr, incr), g.AddProd(expr, num), g.AddProd(incr, expr, plus, plus)}
	for k, p := range ps {
		vQual(p, vrt.Name("p", k))
	}
	t := ConstructLALR(g)
	vrt.Assert(t.HasConflicts, "cross-rule-shift-conflict-reported")
	vrt.Reach("conflict")
}

// H_ResolveSharedShiftOrder: the same with incr declared first (the order of
// the productions behind the shift is reversed).
func H_ResolveSharedShiftOrder() {
	g := NewGrammar()
	plus, num := g.AddTerminal("PLUS"), g.AddTerminal("NUM")
	incr, expr := g.AddRule("incr"), g.AddRule("expr")
	g.SetStart(expr)
	ps := []*Prod{g.AddProd(incr, expr, plus, plus), g.AddProd(expr, expr, plus, expr), g.AddProd(expr, incr), g.AddProd(expr, num)}
	for k, p := range ps {
		vQual(p, vrt.Name("p", k))
	}
	t := ConstructLALR(g)
	vrt.Assert(t.HasConflicts, "cross-rule-shift-conflict-reported")
	vrt.Reach("conflict")
}

// H_ResolveMixedShift: expr = expr PLUS expr | expr PLUS PLUS | NUM: the shift
// is backed by two productions of one rule. Without a qualifier on either the
// conflict must be reported; with equal positive levels it is settled. Levels
// that differ are outside the assertion (the documentation is silent).
func H_ResolveMixedShift() {
	g := NewGrammar()
	plus, num := g.AddTerminal("PLUS"), g.AddTerminal("NUM")
	expr := g.AddRule("expr")
	g.SetStart(expr)
	p1 := g.AddProd(expr, expr, plus, expr)
	p2 := g.AddProd(expr, expr, plus, plus)
	p3 := g.AddProd(expr, num)
	vQual(p1, "p1")
	vQual(p2, "p2")
	vQual(p3, "p3")
	t := ConstructLALR(g)
	if vrt.Or(p1.Precedence <= 0, p2.Precedence <= 0) {
		vrt.Assert(t.HasConflicts, "unqualified-shift-conflict-reported")
		vrt.Reach("conflict")
	} else if p1.Precedence == p2.Precedence {
		vrt.Assert(!t.HasConflicts, "equal-levels-settle")
		vrt.Reach("resolved")
	}
}
