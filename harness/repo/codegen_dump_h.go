//vrt:target internal/codegen/zz_verif_dump_h.go

package codegen

import (
	"encoding/json"
	gotoken "go/token"
	"io"
	"os"
	"path/filepath"
	"strings"

	"github.com/dcaiafa/lox/internal/base/errlogger"
	"github.com/dcaiafa/lox/internal/parsergen/lr1"
)

// vTableDump is the constructed automaton of one specification as the
// generator holds it in memory (C10 compares the emitted tables with it).
type vTableDump struct {
	OK        bool
	Terminals []string
	Rules     []string
	Prods     [][2]int // rule index, number of terms
	States    int
	Actions   [][4]int // state, terminal index, kind (0 shift, 1 reduce, 2 accept), state or production
	Multi     int      // cells with more than one action
	Gotos     [][3]int // state, rule index, target state
}

// VDumpTables runs the real front end on every directory named in
// VERIF_DUMP_DIRS (':'-separated) and writes zz_table.json next to the .lox
// files. Native only.
func VDumpTables() {
	for _, dir := range strings.Split(os.Getenv("VERIF_DUMP_DIRS"), ":") {
		if dir == "" {
			continue
		}
		fset := gotoken.NewFileSet()
		c := &context{Fset: fset, Errs: errlogger.New(fset, io.Discard), Dir: dir}
		d := vTableDump{}
		if c.ParseLox() {
			d.OK = true
			g, t := c.ParserGrammar, c.ParserTable
			for _, term := range g.Terminals {
				d.Terminals = append(d.Terminals, term.Name)
			}
			for _, r := range g.Rules {
				d.Rules = append(d.Rules, r.Name)
			}
			for _, p := range g.Prods {
				d.Prods = append(d.Prods, [2]int{p.Rule.Index, len(p.Terms)})
			}
			d.States = len(t.States)
			for _, st := range t.States {
				am := t.Actions(st)
				for _, term := range am.Terminals() {
					as := am.Get(term)
					if as.Len() > 1 {
						d.Multi++
					}
					a := as.Get(0)
					switch a.Type {
					case lr1.ActionShift:
						d.Actions = append(d.Actions, [4]int{st.Index, term.Index, 0, a.ShiftState.Index})
					case lr1.ActionReduce:
						d.Actions = append(d.Actions, [4]int{st.Index, term.Index, 1, a.Prods[0].Index})
					case lr1.ActionAccept:
						d.Actions = append(d.Actions, [4]int{st.Index, term.Index, 2, 0})
					}
				}
				tr := t.Transitions(st)
				for _, in := range tr.Inputs() {
					if r, ok := in.(*lr1.Rule); ok {
						d.Gotos = append(d.Gotos, [3]int{st.Index, r.Index, tr.Get(r).Index})
					}
				}
			}
		}
		data, _ := json.Marshal(d)
		os.WriteFile(filepath.Join(dir, "zz_table.json"), data, 0644)
	}
}
