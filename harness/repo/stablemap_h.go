//vrt:target internal/base/stablemap/zz_verif_h.go

package stablemap

import "github.com/dcaiafa/lox/zz_verif/vrt"

// H_StableMap (C13): after an arbitrary sequence of Put / Remove / Clear with
// arbitrary keys, Keys()/ForEach visit the surviving keys in insertion order,
// whatever order the built-in map iterates in.
func H_StableMap() {
	n := vrt.Param("ops", 3)
	vrt.MapOrder(1)
	var m Map[int, int]
	var model []int // surviving keys in insertion order
	for i := 0; i < n; i++ {
		op := vrt.Int(vrt.Name("op", i))
		k := vrt.Int(vrt.Name("k", i))
		vrt.Assume(vrt.And(op >= 0, op <= 2))
		vrt.Assume(vrt.And(k >= 0, k <= 2))
		switch op {
		case 0:
			m.Put(k, i)
			found := false
			for _, x := range model {
				if x == k {
					found = true
				}
			}
			if !found {
				model = append(model, k)
			}
		case 1:
			m.Remove(k)
			var nm []int
			for _, x := range model {
				if x != k {
					nm = append(nm, x)
				}
			}
			model = nm
		case 2:
			m.Clear()
			model = nil
		}
	}
	keys := m.Keys()
	vrt.Assert(len(keys) == len(model), "keys-count")
	vrt.Assert(m.Len() == len(model), "len")
	for i := range keys {
		if i < len(model) {
			vrt.Assert(keys[i] == model[i], "keys-in-insertion-order")
		}
	}
	j := 0
	m.ForEach(func(k, v int) {
		if j < len(model) {
			vrt.Assert(k == model[j], "foreach-in-insertion-order")
		}
		j++
	})
	for _, x := range model {
		vrt.Assert(m.Has(x), "has-surviving-key")
	}
	if len(model) >= 2 {
		vrt.Reach("two-keys")
	}
}
