//vrt:target internal/lexergen/rang3/zz_verif_h.go

package rang3

import "github.com/dcaiafa/lox/zz_verif/vrt"

// vRange returns an arbitrary valid range 0 <= B <= E <= MaxRune.
func vRange(name string) Range {
	b := vrt.Rune(name + ".B")
	e := vrt.Rune(name + ".E")
	vrt.Assume(vrt.And(vrt.And(b >= 0, b <= e), e <= MaxRune))
	return Range{b, e}
}

func vRune(name string) rune {
	c := vrt.Rune(name)
	vrt.Assume(vrt.And(c >= 0, c <= MaxRune))
	return c
}

func inRange(c rune, r Range) bool { return vrt.And(r.B <= c, c <= r.E) }

func inAny(c rune, rs []Range) bool {
	r := false
	for _, x := range rs {
		r = vrt.Or(r, inRange(c, x))
	}
	return r
}

func vRanges(prefix string, k int) ([]Range, []Range) {
	rs := make([]Range, k)
	orig := make([]Range, k)
	for i := range rs {
		rs[i] = vRange(vrt.Name(prefix, i))
		orig[i] = rs[i]
	}
	return rs, orig
}

// H_Rel: Contains / Intersects / Touches against their set-theoretic meaning.
func H_Rel() {
	a, b := vRange("a"), vRange("b")
	c := vRune("c")
	// Contains: every point of b is in a. Checked with a universally
	// quantified point by refutation: if Contains then c in b => c in a.
	if a.Contains(b) {
		vrt.Assert(vrt.Implies(inRange(c, b), inRange(c, a)), "contains-sound")
		vrt.Reach("contains")
	} else {
		// some end point of b is outside a
		vrt.Assert(vrt.Or(vrt.Not(inRange(b.B, a)), vrt.Not(inRange(b.E, a))), "contains-complete")
	}
	if a.Intersects(b) {
		// witness: max(B) is in both
		m := a.B
		if b.B > m {
			m = b.B
		}
		vrt.Assert(vrt.And(inRange(m, a), inRange(m, b)), "intersects-sound")
		vrt.Reach("intersects")
	} else {
		vrt.Assert(vrt.Not(vrt.And(inRange(c, a), inRange(c, b))), "intersects-complete")
	}
	vrt.Assert(vrt.Iff(a.Intersects(b), b.Intersects(a)), "intersects-symmetric")
	vrt.Assert(vrt.Iff(a.Touches(b), b.Touches(a)), "touches-symmetric")
	// Touches: intersect, or adjacent
	adj := vrt.Or(a.E+1 == b.B, b.E+1 == a.B)
	vrt.Assert(vrt.Iff(a.Touches(b), vrt.Or(a.Intersects(b), adj)), "touches-meaning")
	// Compare is a total order consistent with equality
	vrt.Assert(vrt.Iff(Compare(a, b) == 0, a == b), "compare-eq")
	vrt.Assert(Compare(a, b) == -Compare(b, a), "compare-antisym")
}

// H_Flatten: the result denotes the same set, sorted, pieces not touching.
func H_Flatten() {
	k := vrt.Param("k", 2)
	rs, orig := vRanges("r", k)
	c := vRune("c")
	nchg := 0
	out := Flatten(rs, func(oa, ob, n Range) {
		nchg++
		// n is exactly the union of oa and ob
		vrt.Assert(vrt.Iff(inRange(c, n), vrt.Or(inRange(c, oa), inRange(c, ob))), "flatten-onchange-union")
	})
	vrt.Assert(vrt.Iff(inAny(c, out), inAny(c, orig)), "flatten-membership")
	for i := 0; i+1 < len(out); i++ {
		vrt.Assert(out[i].E+1 < out[i+1].B, "flatten-sorted-nontouching")
	}
	for i := range out {
		vrt.Assert(vrt.And(0 <= out[i].B, vrt.And(out[i].B <= out[i].E, out[i].E <= MaxRune)), "flatten-wellformed")
	}
	vrt.Assert(len(out)+nchg == k, "flatten-count")
	if len(out) == 1 && k > 1 {
		vrt.Reach("flatten-merged-all")
	}
	if len(out) == k {
		vrt.Reach("flatten-none-merged")
	}
}

// H_Subtract: c in Subtract(a,b) <=> c in a and c not in b.
func H_Subtract() {
	ka := vrt.Param("ka", 2)
	kb := vrt.Param("kb", 2)
	a, oa := vRanges("a", ka)
	b, ob := vRanges("b", kb)
	c := vRune("c")
	out := Subtract(a, b)
	vrt.Assert(vrt.Iff(inAny(c, out), vrt.And(inAny(c, oa), vrt.Not(inAny(c, ob)))), "subtract-membership")
	for i := 0; i+1 < len(out); i++ {
		vrt.Assert(out[i].E < out[i+1].B, "subtract-sorted-disjoint")
	}
	for i := range out {
		vrt.Assert(vrt.And(0 <= out[i].B, vrt.And(out[i].B <= out[i].E, out[i].E <= MaxRune)), "subtract-wellformed")
	}
	if len(out) > ka {
		vrt.Reach("subtract-split")
	}
	if len(out) == 0 {
		vrt.Reach("subtract-empty")
	}
}

type vPiece struct {
	r     Range
	owner []bool // owner[i]: piece currently belongs to original i
}

// H_Normalize: after Normalize every original range is the exact union of the
// pieces booked to it through onChange, and pieces are pairwise equal or
// disjoint.
func H_Normalize() {
	k := vrt.Param("k", 2)
	rs, orig := vRanges("r", k)
	c := vRune("c")
	var pieces []*vPiece
	for i := range orig {
		p := &vPiece{r: orig[i], owner: make([]bool, k)}
		p.owner[i] = true
		pieces = append(pieces, p)
	}
	split := func(o, a, b, cc Range) {
		na := &vPiece{r: a, owner: make([]bool, k)}
		nb := &vPiece{r: b, owner: make([]bool, k)}
		nc := &vPiece{r: cc, owner: make([]bool, k)}
		anyHit := false
		for _, p := range pieces {
			hit := p.r == o
			for i := 0; i < k; i++ {
				own := vrt.And(hit, p.owner[i])
				anyHit = vrt.Or(anyHit, own)
				na.owner[i] = vrt.Or(na.owner[i], own)
				nb.owner[i] = vrt.Or(nb.owner[i], own)
				nc.owner[i] = vrt.Or(nc.owner[i], own)
				p.owner[i] = vrt.And(p.owner[i], vrt.Not(hit))
			}
		}
		vrt.Assert(anyHit, "normalize-onchange-known-range")
		// o is exactly a ∪ b ∪ c, and a, b, c are valid ranges
		vrt.Assert(vrt.Iff(inRange(c, o), vrt.Or(inRange(c, a), vrt.Or(inRange(c, b), inRange(c, cc)))), "normalize-onchange-union")
		vrt.Assert(vrt.And(a.B <= a.E, vrt.And(b.B <= b.E, cc.B <= cc.E)), "normalize-onchange-wellformed")
		pieces = append(pieces, na, nb, nc)
		vrt.Reach("normalize-split")
	}
	Normalize(rs, split)
	for i := 0; i < k; i++ {
		covered := false
		for _, p := range pieces {
			covered = vrt.Or(covered, vrt.And(p.owner[i], inRange(c, p.r)))
		}
		vrt.Assert(vrt.Iff(covered, inRange(c, orig[i])), "normalize-exact-union")
	}
	for x := 0; x < len(pieces); x++ {
		ax := false
		for i := 0; i < k; i++ {
			ax = vrt.Or(ax, pieces[x].owner[i])
		}
		for y := x + 1; y < len(pieces); y++ {
			ay := false
			for i := 0; i < k; i++ {
				ay = vrt.Or(ay, pieces[y].owner[i])
			}
			p, q := pieces[x].r, pieces[y].r
			disjoint := vrt.Or(p.E < q.B, q.E < p.B)
			vrt.Assert(vrt.Implies(vrt.And(ax, ay), vrt.Or(p == q, disjoint)), "normalize-pieces-equal-or-disjoint")
		}
	}
}
