// vcheck runs one property check: vcheck -p C15 -tier quick
package main

import (
	"flag"
	"fmt"
	"os"

	"verif/checks"
)

func main() {
	prop := flag.String("p", "", "property id")
	tier := flag.String("tier", "quick", "quick | thorough")
	replay := flag.String("replay", "", "replay a saved counterexample natively")
	flag.Parse()
	if *replay != "" {
		os.Exit(checks.Replay(*replay))
	}
	if t := os.Getenv("VERIF_TIER"); t != "" && *tier == "" {
		*tier = t
	}
	fn, ok := checks.Registry[*prop]
	if !ok {
		fmt.Fprintf(os.Stderr, "unknown property %q\n", *prop)
		os.Exit(2)
	}
	c := checks.NewCtx(*prop, *tier)
	code := fn(c)
	c.Cleanup()
	os.Exit(code)
}
