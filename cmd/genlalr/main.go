// genlalr writes harness/repo/lr1_lalr_h.go from corpus.ParserConflicts.
package main

import (
	"fmt"
	"verif/corpus"
)

func main() { fmt.Print(corpus.LALRHarnessGo(corpus.ParserConflicts())) }
