package corpus

import "strings"

// Custom is an item whose Go side is written by hand (type layouts for C06).
// "PKG" in the sources is replaced by the package name.
type Custom struct {
	Name      string
	Lox       string
	ParserGo  string
	HarnessGo string
	Note      string
	Extra     map[string]string // further files, relative path (with PKG) -> source
}

func (c *Custom) Render(src, pkg string) string { return strings.ReplaceAll(src, "PKG", pkg) }

const typedLox = `@lexer
A = 'a'
B = 'b'
C = 'c'
COMMA = ','
END = ';'

@parser
@start s = A* x y? @list(z, COMMA)? END
x = B
y = C
z = A B
`

// common harness: arbitrary token sequences; on acceptance every parameter of
// on_s must be the value produced for its term.
const typedHarness = `package PKG

import "vgen/vrt"

type hLexer struct {
	toks []int
	pos  int
}

func (l *hLexer) ReadToken() (Token, int) {
	if l.pos >= len(l.toks) {
		return Token{Kind: EOF, Idx: len(l.toks)}, EOF
	}
	i := l.pos
	l.pos++
	return Token{Kind: l.toks[i], Idx: i}, l.toks[i]
}

func H_Types() {
	n := vrt.Param("n", 3)
	toks := make([]int, n)
	for i := range toks {
		t := vrt.Int(vrt.Name("t", i))
		vrt.Assume(vrt.And(t >= A, t <= END))
		toks[i] = t
	}
	p := &parser{}
	ok := p.parse(&hLexer{toks: toks})
	if !ok {
		return
	}
	vrt.Reach("accepted")
	// reference reading of the accepted sentence: A* B C? (A B (, A B)*)? ;
	i := 0
	na := 0
	for i < n && vrt.Concretize(toks[i]) == A {
		na++
		i++
	}
	xIdx := i
	i++
	yIdx := -1
	if i < n && vrt.Concretize(toks[i]) == C {
		yIdx = i
		i++
	}
	var zIdx []int
	for i < n && vrt.Concretize(toks[i]) == A {
		zIdx = append(zIdx, i)
		i += 2
		if i < n && vrt.Concretize(toks[i]) == COMMA {
			i++
		}
	}
	endIdx := i
	vrt.Assert(p.gotS, "start-action-ran")
	vrt.Assert(len(p.gotAs) == na, "a-list-has-every-element")
	for k := range p.gotAs {
		vrt.Assert(p.gotAs[k] == k, "a-list-in-input-order")
	}
	vrt.Assert(p.gotX == xIdx, "x-value-flows")
	vrt.Assert(p.gotY == yIdx, "y-value-or-zero")
	vrt.Assert(len(p.gotZs) == len(zIdx), "z-list-has-every-element")
	for k := range p.gotZs {
		if k < len(zIdx) {
			vrt.Assert(p.gotZs[k] == zIdx[k], "z-list-in-input-order")
		}
	}
	vrt.Assert(p.gotEnd == endIdx, "end-token-flows")
	if na > 0 {
		vrt.Reach("with-a-list")
	}
	if len(zIdx) > 0 {
		vrt.Reach("with-z-list")
	}
}
`

// parser.go common part: the record of what on_s received, as token indices.
const typedCommon = `
type Token struct {
	Kind int
	Idx  int
}

func (t Token) Discard() bool { return false }

type parser struct {
	lox
	gotS   bool
	gotAs  []int
	gotX   int
	gotY   int
	gotZs  []int
	gotEnd int
}
`

// TypeLayouts: Go type layouts on which lox must succeed (C06).
func TypeLayouts() []*Custom {
	mk := func(name, body, note string) *Custom {
		return &Custom{Name: name, Lox: typedLox, ParserGo: "package PKG\n" + body, HarnessGo: typedHarness, Note: note}
	}
	return []*Custom{
		mk("T-identical", typedCommon+`
type XNode struct{ At int }
type YNode struct{ At int }
type ZNode struct{ At int }

func (p *parser) on_x(b Token) *XNode          { return &XNode{b.Idx} }
func (p *parser) on_y(c Token) *YNode          { return &YNode{c.Idx} }
func (p *parser) on_z(a Token, b Token) *ZNode { return &ZNode{a.Idx} }
func (p *parser) on_s(as []Token, x *XNode, y *YNode, zs []*ZNode, end Token) any {
	p.gotS = true
	for _, a := range as {
		p.gotAs = append(p.gotAs, a.Idx)
	}
	p.gotX, p.gotY = -1, -1
	if x != nil {
		p.gotX = x.At
	}
	if y != nil {
		p.gotY = y.At
	}
	for _, z := range zs {
		p.gotZs = append(p.gotZs, z.At)
	}
	p.gotEnd = end.Idx
	return nil
}
`, "every parameter has exactly the term's type"),
		mk("T-interfaces", typedCommon+`
type XNode struct{ At int }
type YNode struct{ At int }
type ZNode struct{ At int }

type Discarder interface{ Discard() bool }

func (p *parser) on_x(b Token) *XNode          { return &XNode{b.Idx} }
func (p *parser) on_y(c Token) *YNode          { return &YNode{c.Idx} }
func (p *parser) on_z(a Token, b Token) *ZNode { return &ZNode{a.Idx} }
func (p *parser) on_s(as any, x any, y interface{}, zs any, end Discarder) any {
	p.gotS = true
	if l, ok := as.([]Token); ok {
		for _, a := range l {
			p.gotAs = append(p.gotAs, a.Idx)
		}
	}
	p.gotX, p.gotY = -1, -1
	if v, ok := x.(*XNode); ok && v != nil {
		p.gotX = v.At
	}
	if v, ok := y.(*YNode); ok && v != nil {
		p.gotY = v.At
	}
	if l, ok := zs.([]*ZNode); ok {
		for _, z := range l {
			p.gotZs = append(p.gotZs, z.At)
		}
	}
	p.gotEnd = -1
	if t, ok := end.(Token); ok {
		p.gotEnd = t.Idx
	}
	return nil
}
`, "interface-typed parameters"),
		mk("T-namedslice", typedCommon+`
type XNode struct{ At int }
type YNode struct{ At int }
type ZNode struct{ At int }
type Toks []Token
type Zs []*ZNode

func (p *parser) on_x(b Token) *XNode          { return &XNode{b.Idx} }
func (p *parser) on_y(c Token) *YNode          { return &YNode{c.Idx} }
func (p *parser) on_z(a Token, b Token) *ZNode { return &ZNode{a.Idx} }
func (p *parser) on_s(as Toks, x *XNode, y *YNode, zs Zs, end Token) any {
	p.gotS = true
	for _, a := range as {
		p.gotAs = append(p.gotAs, a.Idx)
	}
	p.gotX, p.gotY = -1, -1
	if x != nil {
		p.gotX = x.At
	}
	if y != nil {
		p.gotY = y.At
	}
	for _, z := range zs {
		p.gotZs = append(p.gotZs, z.At)
	}
	p.gotEnd = end.Idx
	return nil
}
`, "named slice types for list terms (assignable, not identical)"),
		mk("T-generic", typedCommon+`
type Box[T any] struct {
	V  T
	Ok bool
}
type ZNode struct{ At int }

func (p *parser) on_x(b Token) Box[int]        { return Box[int]{b.Idx, true} }
func (p *parser) on_y(c Token) Box[string]     { return Box[string]{"y", true} }
func (p *parser) on_z(a Token, b Token) *ZNode { return &ZNode{a.Idx} }
func (p *parser) on_s(as []Token, x Box[int], y Box[string], zs []*ZNode, end Token) any {
	p.gotS = true
	for _, a := range as {
		p.gotAs = append(p.gotAs, a.Idx)
	}
	p.gotX, p.gotY = -1, -1
	if x.Ok {
		p.gotX = x.V
	}
	if y.Ok {
		// y carries no index: find it by its position right after x
		p.gotY = p.gotX + 1
	}
	for _, z := range zs {
		p.gotZs = append(p.gotZs, z.At)
	}
	p.gotEnd = end.Idx
	return nil
}
`, "generic instantiations as rule types"),
		mk("T-imported", `
import (
	gotoken "go/token"
	"strings"
)
`+typedCommon+`
type ZNode struct{ At int }

func (p *parser) on_x(b Token) gotoken.Pos      { return gotoken.Pos(b.Idx + 1) }
func (p *parser) on_y(c Token) *strings.Builder { sb := &strings.Builder{}; sb.WriteByte(byte(c.Idx)); return sb }
func (p *parser) on_z(a Token, b Token) *ZNode  { return &ZNode{a.Idx} }
func (p *parser) on_s(as []Token, x gotoken.Pos, y *strings.Builder, zs []*ZNode, end Token) any {
	p.gotS = true
	for _, a := range as {
		p.gotAs = append(p.gotAs, a.Idx)
	}
	p.gotX, p.gotY = int(x)-1, -1
	if y != nil {
		p.gotY = int(y.String()[0])
	}
	for _, z := range zs {
		p.gotZs = append(p.gotZs, z.At)
	}
	p.gotEnd = end.Idx
	return nil
}
`, "types imported from other packages"),
		func() *Custom {
			c := mk("T-samename", `
import ext "vgen/PKG/ext/PKG"
`+typedCommon+`
type YNode struct{ At int }
type ZNode struct{ At int }

// a local type with the name of the imported one
type Node struct{ Kind int }

func (p *parser) on_x(b Token) ext.Node        { return ext.Node{At: b.Idx, Ok: true} }
func (p *parser) on_y(c Token) *YNode          { return &YNode{c.Idx} }
func (p *parser) on_z(a Token, b Token) *ZNode { return &ZNode{a.Idx} }
func (p *parser) on_s(as []Token, x any, y *YNode, zs []*ZNode, end Token) any {
	p.gotS = true
	for _, a := range as {
		p.gotAs = append(p.gotAs, a.Idx)
	}
	p.gotX, p.gotY = -1, -1
	if v, ok := x.(ext.Node); ok && v.Ok {
		p.gotX = v.At
	}
	if y != nil {
		p.gotY = y.At
	}
	for _, z := range zs {
		p.gotZs = append(p.gotZs, z.At)
	}
	p.gotEnd = end.Idx
	return nil
}
`, "a type imported from a package with the same name as the parser package, next to a local type of that name")
			c.Extra = map[string]string{"ext/PKG/node.go": "package PKG\n\ntype Node struct {\n\tAt int\n\tOk bool\n}\n"}
			return c
		}(),
		func() *Custom {
			c := mk("T-samename2", `
import ext "vgen/PKG/ext/PKG"
`+typedCommon+`
type YNode struct{ At int }
type ZNode struct{ At int }

func (p *parser) on_x(b Token) ext.Node        { return ext.Node{At: b.Idx, Ok: true} }
func (p *parser) on_y(c Token) *YNode          { return &YNode{c.Idx} }
func (p *parser) on_z(a Token, b Token) *ZNode { return &ZNode{a.Idx} }
func (p *parser) on_s(as []Token, x ext.Node, y *YNode, zs []*ZNode, end Token) any {
	p.gotS = true
	for _, a := range as {
		p.gotAs = append(p.gotAs, a.Idx)
	}
	p.gotX, p.gotY = -1, -1
	if x.Ok {
		p.gotX = x.At
	}
	if y != nil {
		p.gotY = y.At
	}
	for _, z := range zs {
		p.gotZs = append(p.gotZs, z.At)
	}
	p.gotEnd = end.Idx
	return nil
}
`, "the imported same-name type as an exact parameter type (the generated file must still compile)")
			c.Extra = map[string]string{"ext/PKG/node.go": "package PKG\n\ntype Node struct {\n\tAt int\n\tOk bool\n}\n"}
			return c
		}(),
		mk("T-alias", typedCommon+`
type Tok = Token
type XNode struct{ At int }
type XPtr = *XNode
type YNode struct{ At int }
type ZNode struct{ At int }

func (p *parser) on_x(b Tok) XPtr              { return &XNode{b.Idx} }
func (p *parser) on_y(c Token) *YNode          { return &YNode{c.Idx} }
func (p *parser) on_z(a Token, b Tok) *ZNode   { return &ZNode{a.Idx} }
func (p *parser) on_s(as []Tok, x *XNode, y *YNode, zs []*ZNode, end Tok) any {
	p.gotS = true
	for _, a := range as {
		p.gotAs = append(p.gotAs, a.Idx)
	}
	p.gotX, p.gotY = -1, -1
	if x != nil {
		p.gotX = x.At
	}
	if y != nil {
		p.gotY = y.At
	}
	for _, z := range zs {
		p.gotZs = append(p.gotZs, z.At)
	}
	p.gotEnd = end.Idx
	return nil
}
`, "type aliases"),
	}
}

// RejectedLayouts: Go sides on which lox must fail with a diagnostic (C06's
// verdict clause on concrete cases: not solver-decided, reported as a
// precondition).
func RejectedLayouts() []*Custom {
	lox := "@lexer\nNUM = [0-9]+\nPLUS = '+'\n\n@parser\n@start s = num\nnum = NUM\n    | PLUS NUM\n"
	head := "package PKG\n\ntype Token struct{ Kind int }\n\ntype parser struct{ lox }\n\n"
	mk := func(name, body, note string) *Custom {
		return &Custom{Name: name, Lox: lox, ParserGo: head + body, Note: note}
	}
	ok := "func (p *parser) on_s(n int) any { return nil }\nfunc (p *parser) on_num(n Token) int { return 0 }\nfunc (p *parser) on_num__neg(_ Token, n Token) int { return 0 }\n"
	return []*Custom{
		mk("V-ok", ok, "control: complete and unambiguous (must be accepted)"),
		mk("V-orphan-last", ok+"func (p *parser) on_num__old(a, b, c Token) int { return 0 }\n", "an on_ method matching no production, declared last"),
		mk("V-orphan-first", "func (p *parser) on_num__a_old(a, b, c Token) int { return 0 }\n"+ok, "an on_ method matching no production, declared first"),
		mk("V-missing", "func (p *parser) on_s(n int) any { return nil }\nfunc (p *parser) on_num(n Token) int { return 0 }\n", "production PLUS NUM has no action"),
		mk("V-ambiguous", ok+"func (p *parser) on_num__any(n any) int { return 0 }\n", "two methods accept production NUM"),
		mk("V-returns", "func (p *parser) on_s(n int) any { return nil }\nfunc (p *parser) on_num(n Token) int { return 0 }\nfunc (p *parser) on_num__neg(_ Token, n Token) string { return \"\" }\n", "methods of one rule return different types"),
		mk("V-paramtype", "func (p *parser) on_s(n string) any { return nil }\nfunc (p *parser) on_num(n Token) int { return 0 }\nfunc (p *parser) on_num__neg(_ Token, n Token) int { return 0 }\n", "parameter type does not accept the rule's type"),
		mk("V-norule", ok+"func (p *parser) on_ghost(n Token) int { return 0 }\n", "method for a rule that does not exist"),
		mk("V-tworesults", "func (p *parser) on_s(n int) (any, error) { return nil, nil }\nfunc (p *parser) on_num(n Token) int { return 0 }\nfunc (p *parser) on_num__neg(_ Token, n Token) int { return 0 }\n", "action returns two values"),
	}
}

// BoundsLayouts: items for C16 whose actions return values of interface type,
// some of them nil (the corpus parser always returns *Node). The harness checks
// that every reduction of a user production with a non-empty span is followed at
// once by _onBounds with that very result and the first and last token.
func BoundsLayouts() []*Custom {
	const lox = `@lexer
ID = 'i'
EQ = '='
NUM = 'n'
SEMI = ';'

@parser
@start prog = stmt*
stmt = ID EQ NUM SEMI
     | SEMI
`
	const parserGo = `package PKG

type Token struct {
	Kind int
	Idx  int
}

type Node interface{ node() }

type Assign struct{ At int }

func (*Assign) node() {}

// hEvent: 'A' = action of stmt, 'P' = action of prog, 'B' = _onBounds
type hEvent struct {
	Kind       byte
	Nil        bool
	Begin, End int
	Same       bool // 'B': the artifact is the value the preceding action returned
}

type parser struct {
	lox
	events []hEvent
	last   any
}

func (p *parser) on_prog(ss []Node) []Node {
	p.events = append(p.events, hEvent{Kind: 'P'})
	p.last = ss
	return ss
}

func (p *parser) on_stmt(id Token, _ Token, _ Token, semi Token) Node {
	p.events = append(p.events, hEvent{Kind: 'A', Begin: id.Idx, End: semi.Idx})
	a := &Assign{id.Idx}
	p.last = Node(a)
	return a
}

// an empty statement has no tree
func (p *parser) on_stmt__empty(semi Token) Node {
	p.events = append(p.events, hEvent{Kind: 'A', Nil: true, Begin: semi.Idx, End: semi.Idx})
	p.last = nil
	return nil
}

func (p *parser) _onBounds(r any, begin, end Token) {
	same := false
	switch v := r.(type) {
	case nil:
		same = p.last == nil
	case *Assign:
		l, ok := p.last.(*Assign)
		same = ok && l == v
	}
	p.events = append(p.events, hEvent{Kind: 'B', Nil: r == nil, Begin: begin.Idx, End: end.Idx, Same: same})
}
`
	const harness = `package PKG

import "vgen/vrt"

type hLexer struct {
	toks []int
	pos  int
}

func (l *hLexer) ReadToken() (Token, int) {
	if l.pos >= len(l.toks) {
		return Token{Kind: EOF, Idx: len(l.toks)}, EOF
	}
	i := l.pos
	l.pos++
	return Token{Kind: l.toks[i], Idx: i}, l.toks[i]
}

// H_NilBounds: statements tile the input, so the span of the k-th statement is
// known; each statement action must be followed at once by its _onBounds call.
func H_NilBounds() {
	n := vrt.Param("n", 3)
	toks := make([]int, n)
	for i := range toks {
		t := vrt.Int(vrt.Name("t", i))
		vrt.Assume(vrt.And(t >= ID, t <= SEMI))
		toks[i] = t
	}
	p := &parser{}
	if !p.parse(&hLexer{toks: toks}) {
		return
	}
	vrt.Reach("accepted")
	pos := 0
	stmts := 0
	for i, e := range p.events {
		switch e.Kind {
		case 'A':
			stmts++
			width := 4
			if e.Nil {
				width = 1
				vrt.Reach("nil-result")
			}
			vrt.Assert(e.Begin == pos && e.End == pos+width-1, "statement-span")
			ok := i+1 < len(p.events) && p.events[i+1].Kind == 'B'
			vrt.Assert(ok, "onBounds-right-after-the-action-of-a-non-empty-reduction")
			if ok {
				b := p.events[i+1]
				vrt.Assert(b.Same && b.Nil == e.Nil, "onBounds-gets-the-action-result")
				vrt.Assert(b.Begin == pos && b.End == pos+width-1, "onBounds-gets-first-and-last-token")
			}
			pos += width
		case 'P':
			follows := i+1 < len(p.events) && p.events[i+1].Kind == 'B'
			vrt.Assert(follows == (n > 0), "start-rule-bounds-iff-non-empty")
			if follows {
				vrt.Assert(p.events[i+1].Begin == 0 && p.events[i+1].End == n-1, "start-rule-span")
			}
		}
	}
	vrt.Assert(pos == n, "statements-tile-the-input")
}
`
	return []*Custom{{Name: "B-nilresult", Lox: lox, ParserGo: parserGo, HarnessGo: harness,
		Note: "actions of interface type; the empty statement returns a nil interface value"}}
}
