package corpus

// LexSpec is a lexer item (filled in lexspec.go).
type LexSpec struct {
	Name string
}

func (l *LexSpec) LoxFiles() []string          { return nil }
func (l *LexSpec) ParserGo(pkg string) string  { return "" }
func (l *LexSpec) HarnessGo(pkg string) string { return "" }
