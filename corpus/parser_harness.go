package corpus

import (
	"fmt"
	"strings"
)

func cnfLiteral(name string, c *CNF, g *Grammar) string {
	var sb strings.Builder
	fmt.Fprintf(&sb, "var %s = &ref.CNF{\n\tNNT: %d, Start: %d, StartEps: %v,\n\tTerm: [][2]int{", name, c.NNT, c.Start, c.StartEps)
	for _, t := range c.Term {
		fmt.Fprintf(&sb, "{%d, %d}, ", t[0], t[1])
	}
	sb.WriteString("},\n\tBin: [][3]int{")
	for _, b := range c.Bin {
		fmt.Fprintf(&sb, "{%d, %d, %d}, ", b[0], b[1], b[2])
	}
	sb.WriteString("},\n\tKinds: []int{")
	for _, t := range g.Tokens {
		sb.WriteString(g.TN(t) + ", ")
	}
	sb.WriteString("-1},\n}\n\n")
	return sb.String()
}

// termLiteral renders a term for the tree checker.
func termLiteral(g *Grammar, t *Term) string {
	card := map[string]string{"": "ref.One", "?": "ref.Opt", "*": "ref.Star", "+": "ref.Plus", "*!": "ref.StarF"}[t.Card]
	switch t.Kind {
	case TTok:
		return fmt.Sprintf("{Kind: ref.Tok, ID: %s, Card: %s}", g.TN(t.Name), card)
	case TNT:
		return fmt.Sprintf("{Kind: ref.NT, ID: %d, Card: %s}", g.RuleIndex(t.Name), card)
	case TErr:
		return fmt.Sprintf("{Kind: ref.Err, Card: %s}", card)
	case TList:
		e := termLiteral(g, t.Elem)
		s := termLiteral(g, t.Sep)
		return fmt.Sprintf("{Kind: ref.List, Card: %s, Elem: &ref.Term%s, Sep: &ref.Term%s}", card, e, s)
	}
	panic("termLiteral")
}

// HarnessGo renders zz_harness.go for a parser item (written after lox has
// generated the package, because it refers to generated identifiers).
func (g *Grammar) HarnessGo(pkg string) string {
	var sb strings.Builder
	fmt.Fprintf(&sb, "package %s\n\nimport (\n\t\"vgen/ref\"\n\t\"vgen/vrt\"\n)\n\n", pkg)
	plain := g.Expand()
	sb.WriteString(cnfLiteral("hCNF", plain.WithoutErr().ToCNF(), g))
	sb.WriteString(cnfLiteral("hCNFErr", plain.ToCNF(), g))
	sb.WriteString("var hTokKinds = []int{")
	for _, t := range g.Tokens {
		sb.WriteString(g.TN(t) + ", ")
	}
	sb.WriteString("}\n\nvar hTokNames = []string{")
	for _, t := range g.Tokens {
		fmt.Fprintf(&sb, "%q, ", t)
	}
	// tokens of parser items are single literals: _TokenToString shows the literal
	sb.WriteString("}\n\nvar hTokShow = []string{")
	for _, t := range g.Tokens {
		fmt.Fprintf(&sb, "%q, ", g.TN(t))
	}
	sb.WriteString("}\n\n")
	// grammar for the derivation-tree checker
	sb.WriteString("var hG = &ref.Grammar{\n\tRules: []ref.Rule{\n")
	for ri, r := range g.Rules {
		fmt.Fprintf(&sb, "\t\t{Name: %q, Groups: [][]int{", r.Name)
		for _, grp := range g.Groups(ri) {
			sb.WriteString("{")
			for _, pi := range grp {
				fmt.Fprintf(&sb, "%d, ", pi)
			}
			sb.WriteString("}, ")
		}
		sb.WriteString("}, Prods: []ref.Prod{\n")
		for _, p := range r.Prods {
			assoc := map[string]int{"": 0, "left": 1, "right": 2}[p.Assoc]
			fmt.Fprintf(&sb, "\t\t\t{Assoc: %d, Prec: %d, Terms: []ref.Term{", assoc, p.Prec)
			for ti := range p.Terms {
				sb.WriteString(termLiteral(g, &p.Terms[ti]) + ", ")
			}
			sb.WriteString("}},\n")
		}
		sb.WriteString("\t\t}},\n")
	}
	sb.WriteString("\t},\n}\n\n")
	fmt.Fprintf(&sb, "const hOnBounds = %v\n\n", g.OnBounds)
	sb.WriteString(parserHarnessBody)
	if g.OnBounds {
		sb.WriteString(parserBoundsBody)
	} else {
		sb.WriteString("\nfunc hBounds(p *parser) []ref.BoundCall { return nil }\n")
	}
	return sb.String()
}

const parserBoundsBody = `
func hBounds(p *parser) []ref.BoundCall {
	out := make([]ref.BoundCall, len(p.Bounds))
	for i, b := range p.Bounds {
		out[i] = ref.BoundCall{Res: hConv(b.Res), Begin: b.Begin.Idx, End: b.End.Idx, After: b.After}
	}
	return out
}
`

// parserHarnessBody is identical for every parser item; it lives in the item's
// package because it needs the unexported generated identifiers.
const parserHarnessBody = `
type hLexer struct {
	toks []int
	dis  []bool
	pos  int
}

func (l *hLexer) ReadToken() (Token, int) {
	if l.pos >= len(l.toks) {
		return Token{Kind: EOF, Idx: len(l.toks)}, EOF
	}
	i := l.pos
	l.pos++
	t := Token{Kind: l.toks[i], Idx: i}
	if l.dis != nil {
		t.Dis = l.dis[i]
	}
	return t, l.toks[i]
}

// hTokens returns n arbitrary token kinds of the item's terminals (plus the
// lexer's ERROR kind when withError).
func hTokens(n int, withError bool) []int {
	toks := make([]int, n)
	for i := range toks {
		t := vrt.Int(vrt.Name("t", i))
		ok := false
		for _, k := range hTokKinds {
			ok = vrt.Or(ok, t == k)
		}
		if withError {
			ok = vrt.Or(ok, t == ERROR)
		}
		vrt.Assume(ok)
		toks[i] = t
	}
	return toks
}

// hConv turns an action argument / result into the checker's value form.
func hConv(a any) ref.Val {
	switch a := a.(type) {
	case Token:
		return ref.Val{Kind: ref.VTok, Tok: a.Kind, Idx: a.Idx, Dis: a.Dis}
	case *Node:
		if a == nil {
			return ref.Val{Kind: ref.VNilNode}
		}
		return ref.Val{Kind: ref.VNode, Node: a.ID, Dis: a.Dis}
	case Error:
		return ref.Val{Kind: ref.VErr, Tok: a.Token.Kind, Idx: a.Token.Idx}
	case []Token:
		v := ref.Val{Kind: ref.VList, Nil: a == nil}
		for _, x := range a {
			v.Elems = append(v.Elems, hConv(x))
		}
		return v
	case []*Node:
		v := ref.Val{Kind: ref.VList, Nil: a == nil}
		for _, x := range a {
			v.Elems = append(v.Elems, hConv(x))
		}
		return v
	case nil:
		return ref.Val{Kind: ref.VNil}
	}
	return ref.Val{Kind: ref.VOther}
}

func hLog(p *parser) []ref.Call {
	out := make([]ref.Call, len(p.Log))
	for i, n := range p.Log {
		c := ref.Call{Rule: n.Rule, Prod: n.Prod, Dis: n.Dis}
		for _, a := range n.Args {
			c.Args = append(c.Args, hConv(a))
		}
		out[i] = c
	}
	return out
}

func hErrorActions(p *parser) int {
	k := 0
	for _, n := range p.Log {
		for _, a := range n.Args {
			if _, ok := a.(Error); ok {
				k++
				break
			}
		}
	}
	return k
}

// H_Member (C01): parse succeeds cleanly <=> the input is a sentence.
func H_Member() {
	n := vrt.Param("n", 3)
	toks := hTokens(n, false)
	p := &parser{}
	ok := p.parse(&hLexer{toks: toks})
	clean := ok && hErrorActions(p) == 0
	if clean {
		vrt.Reach("accepted")
	} else {
		vrt.Reach("rejected")
	}
	vrt.Assert(vrt.Iff(clean, hCNF.Member(toks)), "language")
}

// hPin makes every token kind concrete (after a successful parse the path
// condition already determines them; this costs one query per token).
func hPin(toks []int) []int {
	out := make([]int, len(toks))
	for i, t := range toks {
		out[i] = vrt.Concretize(t)
	}
	return out
}

// H_Tree (C03): the action calls form the derivation tree of the input, each
// parameter is the value produced for its term.
func H_Tree() {
	n := vrt.Param("n", 3)
	toks := hTokens(n, false)
	dis := make([]bool, n)
	for i := range dis {
		dis[i] = vrt.Bool(vrt.Name("dis", i))
	}
	p := &parser{}
	p.HookDis = func(id int) bool { return vrt.Bool(vrt.Name("ndis", id)) }
	ok := p.parse(&hLexer{toks: toks, dis: dis})
	if !ok || hErrorActions(p) != 0 {
		return
	}
	vrt.Reach("accepted")
	pin := hPin(toks)
	msg := ref.CheckTree(hG, hLog(p), pin, dis, hBounds(p), hOnBounds)
	vrt.Observe("tree", msg)
	vrt.Assert(msg == "", "derivation-tree")
}

// H_FindUnit (C10): the generated _Find on an arbitrary well-formed table:
// rows of (key, value) pairs behind an index; symbolic cells, row and key.
func H_FindUnit() {
	rows := vrt.Param("rows", 2)
	pairs := vrt.Param("pairs", 2)
	// layout: [index cells][row: count, (k, v)*]
	table := make([]int32, rows+rows*(1+2*pairs))
	keys := make([][]int32, rows)
	vals := make([][]int32, rows)
	off := rows
	for y := 0; y < rows; y++ {
		table[y] = int32(off)
		table[off] = int32(2 * pairs)
		keys[y] = make([]int32, pairs)
		vals[y] = make([]int32, pairs)
		for j := 0; j < pairs; j++ {
			keys[y][j] = vrt.Int32(vrt.Name(vrt.Name("k", y)+"_", j))
			vals[y][j] = vrt.Int32(vrt.Name(vrt.Name("v", y)+"_", j))
			table[off+1+2*j] = keys[y][j]
			table[off+2+2*j] = vals[y][j]
		}
		off += 1 + 2*pairs
	}
	ysym := vrt.Int("y")
	vrt.Assume(vrt.And(ysym >= 0, ysym < rows))
	y := vrt.Concretize(ysym)
	x := vrt.Int32("x")
	got, ok := _Find(table, int32(y), x)
	// reference: value of the first pair keyed x
	want, found := int32(0), false
	for j := pairs - 1; j >= 0; j-- {
		hit := keys[y][j] == x
		want = vrt.IteInt32(hit, vals[y][j], want)
		found = vrt.Or(found, hit)
	}
	vrt.Assert(vrt.Iff(ok, found), "find-found")
	vrt.Assert(vrt.Implies(found, got == want), "find-value")
	if ok {
		vrt.Reach("found")
	} else {
		vrt.Reach("not-found")
		vrt.Assert(got == 0, "find-zero")
	}
}

// H_TokNumbers (C19): EOF = 0, ERROR = 1, the others dense in declaration order.
func H_TokNumbers() {
	vrt.Assert(EOF == 0, "eof-is-0")
	vrt.Assert(ERROR == 1, "error-is-1")
	for i, k := range hTokKinds {
		vrt.Assert(k == i+2, "dense-declaration-order")
	}
	t := vrt.Int("t")
	s := _TokenToString(t)
	want := "???"
	if t == EOF {
		want = "EOF"
	}
	if t == ERROR {
		want = "ERROR"
	}
	for i, k := range hTokKinds {
		if t == k {
			want = hTokShow[i]
		}
	}
	vrt.Assert(s == want, "token-to-string")
	if s == "???" {
		vrt.Reach("unknown")
	} else {
		vrt.Reach("named")
	}
}

// hTokensNamed is hTokens with a name prefix (two instances in one harness).
func hTokensNamed(prefix string, n int, withError bool) []int {
	toks := make([]int, n)
	for i := range toks {
		t := vrt.Int(vrt.Name(prefix, i))
		ok := false
		for _, k := range hTokKinds {
			ok = vrt.Or(ok, t == k)
		}
		if withError {
			ok = vrt.Or(ok, t == ERROR)
		}
		vrt.Assume(ok)
		toks[i] = t
	}
	return toks
}

// H_Twin (C18): two parser instances of this grammar share no mutable state:
// disjoint memory footprints, no writes to package-level state (under symgo);
// natively the two run on two goroutines (replayed with -race).
func H_Twin() {
	n := vrt.Param("n", 3)
	ta := hTokensNamed("a", n, true)
	// the second instance runs on a copy of the same input: it follows the same
	// path (no squaring of paths) and, replayed natively on its own goroutine,
	// touches the same shared cells, so that go test -race can confirm what the
	// memory monitor reports
	tb := make([]int, n)
	copy(tb, ta)
	pa, pb := &parser{}, &parser{}
	la, lb := &hLexer{toks: ta}, &hLexer{toks: tb}
	var oka, okb bool
	vrt.Twin(func() { oka = pa.parse(la) }, func() { okb = pb.parse(lb) })
	vrt.Assert(vrt.MonitorShared() == 0, "instances-share-no-mutable-state")
	vrt.Assert(vrt.MonitorGlobalWrites() == 0, "no-writes-to-package-level-state")
	// same results as running one after another: a fresh third instance fed
	// instance a's input gives instance a's verdict
	pc := &parser{}
	okc := pc.parse(&hLexer{toks: ta})
	vrt.Assert(okc == oka, "same-result-as-sequential")
	vrt.Assert(len(pc.Log) == len(pa.Log), "same-actions-as-sequential")
	_ = okb
	vrt.Reach("twin")
}

// H_Prec (C05): the grouping equals that of a precedence-climbing parser.
func H_Prec() {
	n := vrt.Param("n", 3)
	toks := hTokens(n, false)
	p := &parser{}
	ok := p.parse(&hLexer{toks: toks})
	clean := ok && hErrorActions(p) == 0
	// the language is that of the (ambiguous) expression grammar
	vrt.Assert(vrt.Iff(clean, hCNF.Member(toks)), "language")
	if !clean {
		return
	}
	vrt.Reach("accepted")
	pin := hPin(toks)
	got := ref.RenderLog(hG, hLog(p))
	want := ref.PrecTree(hG, pin, false)
	vrt.Observe("got", got)
	vrt.Observe("want", want)
	if got != want {
		if got == ref.PrecTree(hG, pin, true) {
			// agrees with the defect model "equal-level @right grouped like @left"
			vrt.Assert(false, "grouping-right-as-left")
		}
		vrt.Assert(false, "grouping")
	}
	if n >= 5 {
		vrt.Reach("two-operators")
	}
}

// H_Recover (C09): termination (step budget), no silent acceptance, blame.
func H_Recover() {
	n := vrt.Param("n", 3)
	toks := hTokens(n, true)
	p := &parser{}
	ok := p.parse(&hLexer{toks: toks})
	errActs := hErrorActions(p)
	member := hCNF.Member(toks)
	if ok && errActs == 0 {
		vrt.Reach("clean")
		vrt.Assert(member, "no-silent-accept")
		return
	}
	vrt.Reach("error")
	vrt.Assert(vrt.Not(member), "sentence-rejected")
	// first Error delivered to an action
	first := -1
	for _, nd := range p.Log {
		for _, a := range nd.Args {
			if e, isErr := a.(Error); isErr && first < 0 {
				first = e.Token.Idx
			}
		}
	}
	if first >= 0 {
		vrt.Reach("error-delivered")
		via := hCNFErr.Viable(toks)
		// tokens before the blamed one are a viable prefix, with it they are not
		// (the EOF token is blamed when every token is part of a viable prefix)
		vrt.Assert(via[first], "blame-not-too-late")
		if first < n {
			vrt.Assert(vrt.Not(via[first+1]), "blame-not-too-early")
		}
	}
	if ok {
		// the consumed symbols, with @error standing for skipped stretches,
		// form a sentence: checked on the tree
		pin := hPin(toks)
		msg := ref.CheckTreeErr(hG, hLog(p), pin)
		vrt.Observe("tree", msg)
		vrt.Assert(msg == "", "recovered-tree")
	}
}
`
