// Package corpus holds the enumerated dimension of the checks: small
// specifications in an IR of its own, printers for .lox / Go sources, and
// reference transformations (sugar expansion, CNF) that share nothing with lox.
package corpus

import (
	"fmt"
	"sort"
	"strconv"
	"strings"
)

type TermKind int

const (
	TTok TermKind = iota
	TNT
	TErr
	TList
)

// Term of a production in source form (with sugar).
type Term struct {
	Kind TermKind
	Name string // token or rule name
	Elem *Term  // list element
	Sep  *Term  // list separator
	Card string // "", "?", "*", "+", "*!"
}

type Prod struct {
	Terms []Term
	Assoc string // "", "left", "right"
	Prec  int
}

type Rule struct {
	Name  string
	Prods []Prod
}

// Grammar is a parser item. Rules[0] is the start rule. Tokens lists the
// terminals in declaration order (upper-case names); rule names are lower-case.
type Grammar struct {
	Name     string
	Rules    []*Rule
	Tokens   []string
	OnBounds bool
	Expect   string // "accept", "reject" or "" (unknown) — documentation only
	Note     string
	Src      string
	MaxN     int    // 0: no limit of its own; else the largest input length explored for this item
	Naming   string // "": rules lower-case (sort after the tokens); "B": rules "A<name>", tokens "Z<NAME>" (rules sort first)
}

// RN / TN give the names used in the generated specification.
func (g *Grammar) RN(rule string) string {
	if g.Naming == "B" {
		return "A" + rule
	}
	return rule
}

func (g *Grammar) TN(tok string) string {
	if g.Naming == "B" {
		return "Z" + tok
	}
	return tok
}

func (g *Grammar) termLox(t *Term) string {
	var s string
	switch t.Kind {
	case TTok:
		s = g.TN(t.Name)
	case TNT:
		s = g.RN(t.Name)
	case TErr:
		s = "@error"
	case TList:
		s = "@list(" + g.termLox(t.Elem) + ", " + g.termLox(t.Sep) + ")"
	}
	return s + t.Card
}

// ParseGrammar reads the compact notation:
//
//	s = A? b* C+ ; b = B | @empty ; e = e PLUS e @left(1) | @list(x, COMMA)? | @error SEMI
//
// Upper-case identifiers are tokens, lower-case ones rules; the first rule is
// the start rule.
func ParseGrammar(name, src string) (*Grammar, error) {
	g := &Grammar{Name: name, Src: src}
	tokSeen := map[string]bool{}
	addTok := func(n string) {
		if !tokSeen[n] {
			tokSeen[n] = true
			g.Tokens = append(g.Tokens, n)
		}
	}
	for _, rs := range strings.Split(src, ";") {
		rs = strings.TrimSpace(rs)
		if rs == "" {
			continue
		}
		eq := strings.Index(rs, "=")
		if eq < 0 {
			return nil, fmt.Errorf("%s: rule without '=': %q", name, rs)
		}
		r := &Rule{Name: strings.TrimSpace(rs[:eq])}
		for _, ps := range strings.Split(rs[eq+1:], "|") {
			toks := lexNotation(ps)
			var p Prod
			for i := 0; i < len(toks); i++ {
				t := toks[i]
				switch {
				case t == "@empty":
				case strings.HasPrefix(t, "@left(") || strings.HasPrefix(t, "@right("):
					p.Assoc = t[1:strings.Index(t, "(")]
					n, err := strconv.Atoi(t[strings.Index(t, "(")+1 : len(t)-1])
					if err != nil {
						return nil, err
					}
					p.Prec = n
				default:
					term, err := parseTerm(t)
					if err != nil {
						return nil, fmt.Errorf("%s: %v", name, err)
					}
					p.Terms = append(p.Terms, term)
				}
			}
			r.Prods = append(r.Prods, p)
		}
		g.Rules = append(g.Rules, r)
	}
	// collect tokens in order of first use
	var walk func(t *Term)
	walk = func(t *Term) {
		switch t.Kind {
		case TTok:
			addTok(t.Name)
		case TList:
			walk(t.Elem)
			walk(t.Sep)
		}
	}
	for _, r := range g.Rules {
		for pi := range r.Prods {
			for ti := range r.Prods[pi].Terms {
				walk(&r.Prods[pi].Terms[ti])
			}
		}
	}
	// sanity: every NT is defined
	def := map[string]bool{}
	for _, r := range g.Rules {
		def[r.Name] = true
	}
	var chk func(t *Term) error
	chk = func(t *Term) error {
		switch t.Kind {
		case TNT:
			if !def[t.Name] {
				return fmt.Errorf("%s: undefined rule %q", name, t.Name)
			}
		case TList:
			if err := chk(t.Elem); err != nil {
				return err
			}
			return chk(t.Sep)
		}
		return nil
	}
	for _, r := range g.Rules {
		for pi := range r.Prods {
			for ti := range r.Prods[pi].Terms {
				if err := chk(&r.Prods[pi].Terms[ti]); err != nil {
					return nil, err
				}
			}
		}
	}
	return g, nil
}

func MustGrammar(name, src string) *Grammar {
	g, err := ParseGrammar(name, src)
	if err != nil {
		panic(err)
	}
	return g
}

// lexNotation splits a production into items, keeping @list(...) together.
func lexNotation(s string) []string {
	var out []string
	i := 0
	for i < len(s) {
		c := s[i]
		if c == ' ' || c == '\t' || c == '\n' {
			i++
			continue
		}
		j := i
		depth := 0
		for j < len(s) {
			if s[j] == '(' {
				depth++
			} else if s[j] == ')' {
				depth--
			} else if depth == 0 && (s[j] == ' ' || s[j] == '\t' || s[j] == '\n') {
				break
			}
			j++
		}
		out = append(out, strings.ReplaceAll(s[i:j], " ", ""))
		i = j
	}
	return out
}

func parseTerm(t string) (Term, error) {
	card := ""
	for _, c := range []string{"*!", "*", "+", "?"} {
		if strings.HasSuffix(t, c) {
			card = c
			t = t[:len(t)-len(c)]
			break
		}
	}
	switch {
	case t == "@error":
		return Term{Kind: TErr, Name: "@error", Card: card}, nil
	case strings.HasPrefix(t, "@list("):
		inner := t[len("@list(") : len(t)-1]
		comma := strings.LastIndex(inner, ",")
		e, err := parseTerm(inner[:comma])
		if err != nil {
			return Term{}, err
		}
		s, err := parseTerm(inner[comma+1:])
		if err != nil {
			return Term{}, err
		}
		return Term{Kind: TList, Elem: &e, Sep: &s, Card: card}, nil
	case t == "":
		return Term{}, fmt.Errorf("empty term")
	case t[0] >= 'A' && t[0] <= 'Z':
		return Term{Kind: TTok, Name: t, Card: card}, nil
	case t[0] >= 'a' && t[0] <= 'z':
		return Term{Kind: TNT, Name: t, Card: card}, nil
	}
	return Term{}, fmt.Errorf("bad term %q", t)
}

// ---- printing ----

func (t *Term) Lox() string {
	var s string
	switch t.Kind {
	case TTok, TNT:
		s = t.Name
	case TErr:
		s = "@error"
	case TList:
		s = "@list(" + t.Elem.Lox() + ", " + t.Sep.Lox() + ")"
	}
	return s + t.Card
}

// TokenLiteral gives the literal of the i-th token in generated lexers.
func TokenLiteral(i int) string {
	return string(rune('a' + i))
}

// Lox renders the specification.
func (g *Grammar) Lox() string {
	var sb strings.Builder
	sb.WriteString("@lexer\n\n")
	for i, t := range g.Tokens {
		fmt.Fprintf(&sb, "%s = '%s'\n", g.TN(t), TokenLiteral(i))
	}
	sb.WriteString("\n@frag ' '+ @discard\n\n@parser\n\n")
	for ri, r := range g.Rules {
		if ri == 0 {
			sb.WriteString("@start ")
		}
		sb.WriteString(g.RN(r.Name) + " = ")
		for pi, p := range r.Prods {
			if pi > 0 {
				sb.WriteString("\n    | ")
			}
			if len(p.Terms) == 0 {
				sb.WriteString("@empty")
			}
			for ti := range p.Terms {
				if ti > 0 {
					sb.WriteString(" ")
				}
				sb.WriteString(g.termLox(&p.Terms[ti]))
			}
			if p.Assoc != "" {
				fmt.Fprintf(&sb, " @%s(%d)", p.Assoc, p.Prec)
			}
		}
		sb.WriteString("\n\n")
	}
	return sb.String()
}

// GoBase is the Go type of the value a term delivers before cardinality.
func (t *Term) goBase() string {
	switch t.Kind {
	case TTok:
		return "Token"
	case TNT:
		return "*Node"
	case TErr:
		return "Error"
	}
	panic("goBase")
}

// GoType is the parameter type for a term.
func (t *Term) GoType() string {
	if t.Kind == TList {
		return "[]" + t.Elem.goBase()
	}
	switch t.Card {
	case "", "?":
		return t.goBase()
	default:
		return "[]" + t.goBase()
	}
}

// Groups partitions the productions of a rule by parameter signature: lox
// wants exactly one action method per production, matched by types, so
// productions with equal signatures have to share one method.
func (g *Grammar) Groups(ri int) [][]int {
	var keys []string
	var groups [][]int
	for pi, p := range g.Rules[ri].Prods {
		k := ""
		for ti := range p.Terms {
			k += p.Terms[ti].GoType() + ","
		}
		found := false
		for i, kk := range keys {
			if kk == k {
				groups[i] = append(groups[i], pi)
				found = true
			}
		}
		if !found {
			keys = append(keys, k)
			groups = append(groups, []int{pi})
		}
	}
	return groups
}

func (g *Grammar) RuleIndex(name string) int {
	for i, r := range g.Rules {
		if r.Name == name {
			return i
		}
	}
	return -1
}

func (g *Grammar) TokenIndex(name string) int {
	for i, t := range g.Tokens {
		if t == name {
			return i
		}
	}
	return -1
}

// ParserGo renders parser.go: Token, Node, the parser struct and one action
// method per production. It imports nothing, so that lox's own type-check of
// the package stays fast.
func (g *Grammar) ParserGo(pkg string) string {
	var sb strings.Builder
	fmt.Fprintf(&sb, "package %s\n\n", pkg)
	sb.WriteString(`// Token is what the stub lexer hands to the parser.
type Token struct {
	Kind int
	Idx  int
	Dis  bool
}

func (t Token) Discard() bool { return t.Dis }

// Node records one action call.
type Node struct {
	Rule int
	Prod int
	Args []any
	ID   int
	Dis  bool
}

func (n *Node) Discard() bool { return n.Dis }

type Bound struct {
	Res        any
	Begin, End Token
	After      int // number of action calls made before this call
}

type parser struct {
	lox
	Log     []*Node
	Bounds  []Bound
	HookDis func(id int) bool
}

func (p *parser) act(rule, prod int, args ...any) *Node {
	n := &Node{Rule: rule, Prod: prod, Args: args, ID: len(p.Log)}
	if p.HookDis != nil {
		n.Dis = p.HookDis(n.ID)
	}
	p.Log = append(p.Log, n)
	return n
}

`)
	if g.OnBounds {
		sb.WriteString(`func (p *parser) _onBounds(r any, begin, end Token) {
	p.Bounds = append(p.Bounds, Bound{Res: r, Begin: begin, End: end, After: len(p.Log)})
}

`)
	}
	for ri, r := range g.Rules {
		for gi, grp := range g.Groups(ri) {
			p := r.Prods[grp[0]]
			fmt.Fprintf(&sb, "// productions %v of %s\nfunc (p *parser) on_%s__g%d(", grp, r.Name, g.RN(r.Name), gi)
			var args []string
			for ti := range p.Terms {
				if ti > 0 {
					sb.WriteString(", ")
				}
				fmt.Fprintf(&sb, "a%d %s", ti, p.Terms[ti].GoType())
				args = append(args, fmt.Sprintf("a%d", ti))
			}
			fmt.Fprintf(&sb, ") *Node {\n\treturn p.act(%d, %d", ri, gi)
			for _, a := range args {
				sb.WriteString(", " + a)
			}
			sb.WriteString(")\n}\n\n")
		}
	}
	return sb.String()
}

// ---- plain CFG (sugar expanded by my own expander) ----

// Sym: Term=true → terminal index (into Grammar.Tokens; -1 = the error
// pseudo-terminal), else non-terminal index of the plain grammar.
type Sym struct {
	Term bool
	ID   int
}

const ErrSym = -1

type PProd struct {
	LHS  int
	RHS  []Sym
	User [2]int // {rule, prod} of the user production, or {-1,-1} for helpers
}

type Plain struct {
	NT    []string
	Prods []PProd
	Start int
	NTok  int
}

// Expand turns the sugar into fresh non-terminals following the documented
// meaning: x? = x | ε; x+ = x+ x | x; x* = x+ | ε; x*! as x*;
// @list(x,s) = @list s x | x; @list(x,s)? = @list | ε.
func (g *Grammar) Expand() *Plain {
	p := &Plain{NTok: len(g.Tokens)}
	idx := map[string]int{}
	nt := func(name string) int {
		if i, ok := idx[name]; ok {
			return i
		}
		idx[name] = len(p.NT)
		p.NT = append(p.NT, name)
		return len(p.NT) - 1
	}
	for _, r := range g.Rules {
		nt(r.Name)
	}
	none := [2]int{-1, -1}
	var sym func(t *Term) Sym
	base := func(t *Term) Sym {
		switch t.Kind {
		case TTok:
			return Sym{Term: true, ID: g.TokenIndex(t.Name)}
		case TErr:
			return Sym{Term: true, ID: ErrSym}
		case TNT:
			return Sym{ID: idx[t.Name]}
		case TList:
			name := "@list(" + t.Elem.Lox() + "," + t.Sep.Lox() + ")"
			if i, ok := idx[name]; ok {
				return Sym{ID: i}
			}
			l := nt(name)
			e, s := sym(t.Elem), sym(t.Sep)
			p.Prods = append(p.Prods, PProd{LHS: l, RHS: []Sym{{ID: l}, s, e}, User: none})
			p.Prods = append(p.Prods, PProd{LHS: l, RHS: []Sym{e}, User: none})
			return Sym{ID: l}
		}
		panic("base")
	}
	sym = func(t *Term) Sym {
		b := base(t)
		if t.Card == "" {
			return b
		}
		bt := *t
		bt.Card = ""
		bname := bt.Lox()
		bang := ""
		if t.Card == "*!" {
			bang = "!" // lox keeps the helpers of x*! apart from those of x*
		}
		plus := func() int {
			name := bname + "+" + bang
			if i, ok := idx[name]; ok {
				return i
			}
			l := nt(name)
			p.Prods = append(p.Prods, PProd{LHS: l, RHS: []Sym{{ID: l}, b}, User: none})
			p.Prods = append(p.Prods, PProd{LHS: l, RHS: []Sym{b}, User: none})
			return l
		}
		switch t.Card {
		case "?":
			name := bname + "?"
			if i, ok := idx[name]; ok {
				return Sym{ID: i}
			}
			l := nt(name)
			p.Prods = append(p.Prods, PProd{LHS: l, RHS: []Sym{b}, User: none})
			p.Prods = append(p.Prods, PProd{LHS: l, RHS: nil, User: none})
			return Sym{ID: l}
		case "+":
			return Sym{ID: plus()}
		case "*", "*!":
			name := bname + "*" + bang
			if i, ok := idx[name]; ok {
				return Sym{ID: i}
			}
			pl := plus()
			l := nt(name)
			p.Prods = append(p.Prods, PProd{LHS: l, RHS: []Sym{{ID: pl}}, User: none})
			p.Prods = append(p.Prods, PProd{LHS: l, RHS: nil, User: none})
			return Sym{ID: l}
		}
		panic("card")
	}
	for ri, r := range g.Rules {
		for pi := range r.Prods {
			pp := PProd{LHS: idx[r.Name], User: [2]int{ri, pi}}
			for ti := range r.Prods[pi].Terms {
				pp.RHS = append(pp.RHS, sym(&r.Prods[pi].Terms[ti]))
			}
			p.Prods = append(p.Prods, pp)
		}
	}
	p.Start = 0
	return p
}

// WithoutErr drops every production that mentions the error pseudo-terminal.
func (p *Plain) WithoutErr() *Plain {
	q := &Plain{NT: p.NT, Start: p.Start, NTok: p.NTok}
	for _, pr := range p.Prods {
		has := false
		for _, s := range pr.RHS {
			if s.Term && s.ID == ErrSym {
				has = true
			}
		}
		if !has {
			q.Prods = append(q.Prods, pr)
		}
	}
	return q
}

// ---- CNF ----

// CNF: A → a (Term), A → B C (Bin), and whether the start symbol derives ε.
// Terminal ids: token index, or NTok for the error pseudo-terminal.
type CNF struct {
	NNT      int
	Start    int
	StartEps bool
	Term     [][2]int // {A, terminal}
	Bin      [][3]int // {A, B, C}
	NTok     int
	Names    []string
}

// ToCNF converts a plain grammar (START, TERM, BIN, DEL, UNIT), dropping
// unproductive and unreachable non-terminals.
func (p *Plain) ToCNF() *CNF {
	type prod struct {
		lhs int
		rhs []Sym
	}
	names := append([]string{}, p.NT...)
	newNT := func(n string) int {
		names = append(names, n)
		return len(names) - 1
	}
	term := func(id int) int {
		if id == ErrSym {
			return p.NTok
		}
		return id
	}
	var prods []prod
	for _, pr := range p.Prods {
		prods = append(prods, prod{pr.LHS, append([]Sym{}, pr.RHS...)})
	}
	// START
	s0 := newNT("S0")
	prods = append(prods, prod{s0, []Sym{{ID: p.Start}}})
	// TERM: terminals in long right-hand sides get their own non-terminal
	tnt := map[int]int{}
	for i := range prods {
		if len(prods[i].rhs) < 2 {
			continue
		}
		for j, s := range prods[i].rhs {
			if s.Term {
				t := term(s.ID)
				n, ok := tnt[t]
				if !ok {
					n = newNT(fmt.Sprintf("T%d", t))
					tnt[t] = n
					prods = append(prods, prod{n, []Sym{{Term: true, ID: s.ID}}})
				}
				prods[i].rhs[j] = Sym{ID: n}
			}
		}
	}
	// BIN
	var bin []prod
	for _, pr := range prods {
		for len(pr.rhs) > 2 {
			n := newNT(fmt.Sprintf("B%d", len(names)))
			bin = append(bin, prod{pr.lhs, []Sym{pr.rhs[0], {ID: n}}})
			pr = prod{n, pr.rhs[1:]}
		}
		bin = append(bin, pr)
	}
	prods = bin
	// DEL: nullable set
	nullable := map[int]bool{}
	for changed := true; changed; {
		changed = false
		for _, pr := range prods {
			if nullable[pr.lhs] {
				continue
			}
			all := true
			for _, s := range pr.rhs {
				if s.Term || !nullable[s.ID] {
					all = false
				}
			}
			if all {
				nullable[pr.lhs] = true
				changed = true
			}
		}
	}
	key := func(pr prod) string {
		s := fmt.Sprint(pr.lhs, ":")
		for _, x := range pr.rhs {
			s += fmt.Sprint(x.Term, x.ID, ",")
		}
		return s
	}
	seen := map[string]bool{}
	var del []prod
	add := func(pr prod) {
		if len(pr.rhs) == 0 {
			return
		}
		if len(pr.rhs) == 1 && !pr.rhs[0].Term && pr.rhs[0].ID == pr.lhs {
			return
		}
		if k := key(pr); !seen[k] {
			seen[k] = true
			del = append(del, pr)
		}
	}
	for _, pr := range prods {
		add(pr)
		if len(pr.rhs) == 2 {
			a, b := pr.rhs[0], pr.rhs[1]
			if !a.Term && nullable[a.ID] {
				add(prod{pr.lhs, []Sym{b}})
			}
			if !b.Term && nullable[b.ID] {
				add(prod{pr.lhs, []Sym{a}})
			}
		}
	}
	prods = del
	// UNIT: closure
	unit := map[[2]int]bool{}
	for i := range names {
		unit[[2]int{i, i}] = true
	}
	for changed := true; changed; {
		changed = false
		for _, pr := range prods {
			if len(pr.rhs) == 1 && !pr.rhs[0].Term {
				for i := range names {
					if unit[[2]int{i, pr.lhs}] && !unit[[2]int{i, pr.rhs[0].ID}] {
						unit[[2]int{i, pr.rhs[0].ID}] = true
						changed = true
					}
				}
			}
		}
	}
	c := &CNF{NTok: p.NTok, StartEps: nullable[p.Start]}
	tseen := map[[2]int]bool{}
	bseen := map[[3]int]bool{}
	for a := range names {
		for _, pr := range prods {
			if !unit[[2]int{a, pr.lhs}] {
				continue
			}
			if len(pr.rhs) == 1 && pr.rhs[0].Term {
				k := [2]int{a, term(pr.rhs[0].ID)}
				if !tseen[k] {
					tseen[k] = true
					c.Term = append(c.Term, k)
				}
			} else if len(pr.rhs) == 2 {
				k := [3]int{a, pr.rhs[0].ID, pr.rhs[1].ID}
				if !bseen[k] {
					bseen[k] = true
					c.Bin = append(c.Bin, k)
				}
			}
		}
	}
	// productive
	productive := map[int]bool{}
	for _, t := range c.Term {
		productive[t[0]] = true
	}
	for changed := true; changed; {
		changed = false
		for _, b := range c.Bin {
			if !productive[b[0]] && productive[b[1]] && productive[b[2]] {
				productive[b[0]] = true
				changed = true
			}
		}
	}
	// reachable from S0 through productive productions
	reach := map[int]bool{s0: true}
	for changed := true; changed; {
		changed = false
		for _, b := range c.Bin {
			if reach[b[0]] && productive[b[1]] && productive[b[2]] {
				if !reach[b[1]] {
					reach[b[1]] = true
					changed = true
				}
				if !reach[b[2]] {
					reach[b[2]] = true
					changed = true
				}
			}
		}
	}
	// renumber
	ren := map[int]int{}
	var keep []int
	for i := range names {
		if reach[i] && (productive[i] || i == s0) {
			keep = append(keep, i)
		}
	}
	sort.Ints(keep)
	for _, i := range keep {
		ren[i] = len(ren)
		c.Names = append(c.Names, names[i])
	}
	var t2 [][2]int
	for _, t := range c.Term {
		if a, ok := ren[t[0]]; ok {
			t2 = append(t2, [2]int{a, t[1]})
		}
	}
	var b2 [][3]int
	for _, b := range c.Bin {
		a, ok := ren[b[0]]
		x, ok1 := ren[b[1]]
		y, ok2 := ren[b[2]]
		if ok && ok1 && ok2 && productive[b[1]] && productive[b[2]] {
			b2 = append(b2, [3]int{a, x, y})
		}
	}
	c.Term, c.Bin = t2, b2
	c.NNT = len(ren)
	c.Start = ren[s0]
	return c
}

// Member is the classic CYK on concrete input (terminal ids as in CNF).
func (c *CNF) Member(w []int) bool {
	n := len(w)
	if n == 0 {
		return c.StartEps
	}
	d := make([][][]bool, c.NNT)
	for a := range d {
		d[a] = make([][]bool, n+1)
		for i := range d[a] {
			d[a][i] = make([]bool, n+1)
		}
	}
	for i := 0; i < n; i++ {
		for _, t := range c.Term {
			if t[1] == w[i] {
				d[t[0]][i][i+1] = true
			}
		}
	}
	for l := 2; l <= n; l++ {
		for i := 0; i+l <= n; i++ {
			j := i + l
			for _, b := range c.Bin {
				for k := i + 1; k < j; k++ {
					if d[b[1]][i][k] && d[b[2]][k][j] {
						d[b[0]][i][j] = true
					}
				}
			}
		}
	}
	return d[c.Start][0][n]
}

// Derives is an independent membership test on the plain grammar (memoised
// search over (symbol, i, j) with a fix-point), used to validate CNF + CYK.
func (p *Plain) Derives(w []int) bool {
	n := len(w)
	type key struct{ nt, i, j int }
	d := map[key]bool{}
	for changed := true; changed; {
		changed = false
		for _, pr := range p.Prods {
			for i := 0; i <= n; i++ {
				// reach[k]: RHS prefix derives w[i:k]
				reach := make([]bool, n+1)
				reach[i] = true
				for _, s := range pr.RHS {
					next := make([]bool, n+1)
					for k := i; k <= n; k++ {
						if !reach[k] {
							continue
						}
						if s.Term {
							if k < n && s.ID != ErrSym && w[k] == s.ID {
								next[k+1] = true
							}
						} else {
							for m := k; m <= n; m++ {
								if d[key{s.ID, k, m}] {
									next[m] = true
								}
							}
						}
					}
					reach = next
				}
				for j := i; j <= n; j++ {
					if reach[j] && !d[key{pr.LHS, i, j}] {
						d[key{pr.LHS, i, j}] = true
						changed = true
					}
				}
			}
		}
	}
	return d[key{p.Start, 0, n}]
}

// SelfTest compares CNF/CYK with the direct derivation search on every string
// up to length n.
func (g *Grammar) SelfTest(n int) error {
	pl := g.Expand().WithoutErr()
	c := pl.ToCNF()
	k := len(g.Tokens)
	// keep the enumeration below ~20000 strings
	for n > 1 && pow(k, n) > 20000 {
		n--
	}
	w := []int{}
	var rec func() error
	rec = func() error {
		if c.Member(w) != pl.Derives(w) {
			return fmt.Errorf("%s: reference models disagree on %v (cnf=%v)", g.Name, w, c.Member(w))
		}
		if len(w) == n {
			return nil
		}
		for t := 0; t < k; t++ {
			w = append(w, t)
			if err := rec(); err != nil {
				return err
			}
			w = w[:len(w)-1]
		}
		return nil
	}
	return rec()
}

func pow(b, e int) int {
	r := 1
	for i := 0; i < e; i++ {
		r *= b
		if r > 1<<30 {
			return r
		}
	}
	return r
}
