package corpus

import (
	"fmt"
	"math/rand"
	"strings"
)

// RandomGrammars: the seeded small-scope generator. Grammars have at most 3
// rules of at most 3 productions of at most 3 terms over at most 3 tokens,
// with occasional sugar. Whatever lox rejects is skipped by the checks.
func RandomGrammars(seed int64, count int) []*Grammar {
	rng := rand.New(rand.NewSource(seed))
	var out []*Grammar
	toks := []string{"A", "B", "C"}
	for len(out) < count {
		nr := 1 + rng.Intn(3)
		rules := []string{"s", "t", "u"}[:nr]
		var parts []string
		for _, r := range rules {
			np := 1 + rng.Intn(3)
			var prods []string
			for p := 0; p < np; p++ {
				nt := rng.Intn(4)
				if nt == 0 {
					prods = append(prods, "@empty")
					continue
				}
				var terms []string
				for k := 0; k < nt; k++ {
					var t string
					if rng.Intn(100) < 60 {
						t = toks[rng.Intn(len(toks))]
					} else {
						t = rules[rng.Intn(len(rules))]
					}
					switch x := rng.Intn(100); {
					case x < 8:
						t += "?"
					case x < 14:
						t += "*"
					case x < 20:
						t += "+"
					case x < 24 && t[0] >= 'A' && t[0] <= 'Z':
						t = "@list(" + t + ",C)"
					}
					terms = append(terms, t)
				}
				prods = append(prods, strings.Join(terms, " "))
			}
			parts = append(parts, r+" = "+strings.Join(prods, " | "))
		}
		g, err := ParseGrammar(fmt.Sprintf("R-%d-%d", seed, len(out)), strings.Join(parts, " ; "))
		if err != nil {
			continue
		}
		out = append(out, g)
	}
	return out
}

func randRe(rng *rand.Rand, depth int) string {
	classes := []string{"'a'", "'b'", "[a-b]", "[b-c]", "'c'", "[a-c]", "~[a]", "'ab'"}
	if depth == 0 || rng.Intn(100) < 35 {
		return classes[rng.Intn(len(classes))]
	}
	switch rng.Intn(5) {
	case 0:
		return randRe(rng, depth-1) + " " + randRe(rng, depth-1)
	case 1:
		return "(" + randRe(rng, depth-1) + " | " + randRe(rng, depth-1) + ")"
	case 2:
		return "(" + randRe(rng, depth-1) + ")?"
	case 3:
		return "(" + randRe(rng, depth-1) + ")*"
	default:
		return "(" + randRe(rng, depth-1) + ")+"
	}
}

// RandomLexers: 2-3 greedy rules of depth <= 3 over a three-letter alphabet;
// no rule matches the empty string.
func RandomLexers(seed int64, count int) []*LexSpec {
	rng := rand.New(rand.NewSource(seed))
	var out []*LexSpec
	for len(out) < count {
		n := 2 + rng.Intn(2)
		var lines []string
		for i := 0; i < n; i++ {
			lines = append(lines, fmt.Sprintf("T%d = %s", i, randRe(rng, 3)))
		}
		if rng.Intn(3) == 0 {
			lines = append(lines, "@frag [ ]+ @discard")
		}
		spec, err := ParseLexSpec(fmt.Sprintf("RL-%d-%d", seed, len(out)), strings.Join(lines, "\n"))
		if err != nil {
			continue
		}
		ok := true
		for _, m := range spec.Compile() {
			for _, r := range m.Rules {
				if r.Nullable {
					ok = false
				}
			}
		}
		if ok {
			out = append(out, spec)
		}
	}
	return out
}
