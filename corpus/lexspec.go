package corpus

import (
	"fmt"
	"sort"
	"strconv"
	"strings"
	"unicode/utf8"
)

const MaxRune = 0x10FFFF

// RRange is an inclusive code-point range.
type RRange struct{ Lo, Hi rune }

// Set is a sorted list of disjoint, non-adjacent ranges (my own set algebra).
type Set []RRange

func normSet(rs []RRange) Set {
	var in []RRange
	for _, r := range rs {
		if r.Lo <= r.Hi {
			in = append(in, r)
		}
	}
	sort.Slice(in, func(i, j int) bool { return in[i].Lo < in[j].Lo })
	var out Set
	for _, r := range in {
		if n := len(out); n > 0 && r.Lo <= out[n-1].Hi+1 {
			if r.Hi > out[n-1].Hi {
				out[n-1].Hi = r.Hi
			}
			continue
		}
		out = append(out, r)
	}
	return out
}

func (s Set) Complement() Set {
	var out []RRange
	next := rune(0)
	for _, r := range s {
		if r.Lo > next {
			out = append(out, RRange{next, r.Lo - 1})
		}
		next = r.Hi + 1
	}
	if next <= MaxRune {
		out = append(out, RRange{next, MaxRune})
	}
	return normSet(out)
}

func (s Set) Intersect(o Set) Set {
	var out []RRange
	for _, a := range s {
		for _, b := range o {
			lo, hi := a.Lo, a.Hi
			if b.Lo > lo {
				lo = b.Lo
			}
			if b.Hi < hi {
				hi = b.Hi
			}
			if lo <= hi {
				out = append(out, RRange{lo, hi})
			}
		}
	}
	return normSet(out)
}

func (s Set) Minus(o Set) Set { return s.Intersect(o.Complement()) }

func (s Set) Has(c rune) bool {
	for _, r := range s {
		if r.Lo <= c && c <= r.Hi {
			return true
		}
	}
	return false
}

// Re is a regular expression over code-point sets.
type Re struct {
	Op   string // "set", "seq", "alt", "opt", "star", "plus", "starng", "plusng", "ref"
	Lit  string // set for a node that came from one literal
	Set  Set
	Ref  string
	Kids []*Re
}

type LexAction struct {
	Kind string // "push", "pop", "emit", "discard"
	Arg  string
}

type LexRule struct {
	Kind    string // "token", "frag", "macro", "external"
	Name    string
	Re      *Re
	Actions []LexAction
	Src     string
	Mode    string
	Order   int // declaration order over the whole specification
}

// LexSpec is a lexer item: the .lox lexer section is the source text; the IR
// is produced by the parser below (mine, from the documentation).
type LexSpec struct {
	Name   string
	Src    string   // lexer section (without "@lexer")
	Rules  []*LexRule
	Modes  []string // mode names in order of first declaration; "" is the default mode
	Tokens []string // terminals in declaration order (tokens and @external names)
	Note   string
	Tags   map[string]bool
	Extra  []string // additional .lox files (lexer sections)
}

type lexParser struct {
	s    string
	pos  int
	spec *LexSpec
	mode string
	err  error
}

func (p *lexParser) fail(format string, args ...any) {
	if p.err == nil {
		p.err = fmt.Errorf("%s: offset %d: %s", p.spec.Name, p.pos, fmt.Sprintf(format, args...))
	}
}

func (p *lexParser) ws(nl bool) {
	for p.pos < len(p.s) {
		c := p.s[p.pos]
		if c == ' ' || c == '\t' || c == '\r' || (nl && c == '\n') {
			p.pos++
			continue
		}
		if strings.HasPrefix(p.s[p.pos:], "//") {
			for p.pos < len(p.s) && p.s[p.pos] != '\n' {
				p.pos++
			}
			continue
		}
		break
	}
}

func (p *lexParser) ident() string {
	start := p.pos
	for p.pos < len(p.s) {
		c := p.s[p.pos]
		if c == '_' || c >= '0' && c <= '9' || c >= 'A' && c <= 'Z' || c >= 'a' && c <= 'z' {
			p.pos++
			continue
		}
		break
	}
	return p.s[start:p.pos]
}

func (p *lexParser) hex(n int) rune {
	if p.pos+n > len(p.s) {
		p.fail("short hex escape")
		return 0
	}
	v, err := strconv.ParseUint(p.s[p.pos:p.pos+n], 16, 32)
	if err != nil {
		p.fail("bad hex escape")
	}
	p.pos += n
	return rune(v)
}

// escape parses the character after a backslash.
func (p *lexParser) escape(inClass bool) rune {
	c := p.s[p.pos]
	p.pos++
	switch c {
	case 'n':
		return '\n'
	case 'r':
		return '\r'
	case 't':
		return '\t'
	case '\\':
		return '\\'
	case '\'':
		if !inClass {
			return '\''
		}
	case '-':
		if inClass {
			return '-'
		}
	case 'x':
		return p.hex(2)
	case 'u':
		return p.hex(4)
	case 'U':
		return p.hex(8)
	}
	p.fail("unknown escape \\%c", c)
	return 0
}

func (p *lexParser) literal() *Re {
	p.pos++ // opening quote
	seq := &Re{Op: "seq"}
	lit := ""
	for {
		if p.pos >= len(p.s) {
			p.fail("unterminated literal")
			return seq
		}
		if p.s[p.pos] == '\'' {
			p.pos++
			break
		}
		var r rune
		if p.s[p.pos] == '\\' {
			p.pos++
			r = p.escape(false)
		} else {
			var w int
			r, w = utf8.DecodeRuneInString(p.s[p.pos:])
			p.pos += w
		}
		seq.Kids = append(seq.Kids, &Re{Op: "set", Set: Set{{r, r}}})
		lit += string(r)
	}
	if len(seq.Kids) == 1 {
		seq.Kids[0].Lit = lit
		return seq.Kids[0]
	}
	seq.Lit = lit
	return seq
}

func (p *lexParser) class() Set {
	neg := false
	if p.s[p.pos] == '~' {
		neg = true
		p.pos++
	}
	if p.pos >= len(p.s) || p.s[p.pos] != '[' {
		p.fail("'[' expected")
		return nil
	}
	p.pos++
	var chars []rune // -1 marks an unescaped dash
	for {
		if p.pos >= len(p.s) {
			p.fail("unterminated class")
			return nil
		}
		c := p.s[p.pos]
		if c == ']' {
			p.pos++
			break
		}
		switch {
		case c == '\\':
			p.pos++
			chars = append(chars, p.escape(true))
		case c == '-':
			p.pos++
			chars = append(chars, -1)
		default:
			r, w := utf8.DecodeRuneInString(p.s[p.pos:])
			p.pos += w
			chars = append(chars, r)
		}
	}
	var rs []RRange
	for i := 0; i < len(chars); {
		if chars[i] == -1 {
			rs = append(rs, RRange{'-', '-'})
			i++
			continue
		}
		if i+2 < len(chars) && chars[i+1] == -1 && chars[i+2] != -1 {
			rs = append(rs, RRange{chars[i], chars[i+2]})
			i += 3
			continue
		}
		rs = append(rs, RRange{chars[i], chars[i]})
		i++
	}
	s := normSet(rs)
	if neg {
		s = s.Complement()
	}
	return s
}

func (p *lexParser) term() *Re {
	p.ws(false)
	if p.pos >= len(p.s) {
		return nil
	}
	c := p.s[p.pos]
	switch {
	case c == '\'':
		return p.literal()
	case c == '.':
		p.pos++
		return &Re{Op: "set", Set: Set{{0, MaxRune}}}
	case c == '[' || c == '~':
		s := p.class()
		p.ws(false)
		if p.pos < len(p.s) && p.s[p.pos] == '-' {
			p.pos++
			p.ws(false)
			s = s.Minus(p.class())
		}
		return &Re{Op: "set", Set: s}
	case c == '(':
		p.pos++
		e := p.expr()
		p.ws(false)
		if p.pos >= len(p.s) || p.s[p.pos] != ')' {
			p.fail("')' expected")
			return e
		}
		p.pos++
		return e
	case c >= 'A' && c <= 'Z':
		return &Re{Op: "ref", Ref: p.ident()}
	}
	return nil
}

func (p *lexParser) factor() *Re {
	seq := &Re{Op: "seq"}
	for {
		t := p.term()
		if t == nil {
			break
		}
		for _, c := range []struct{ s, op string }{{"*?", "starng"}, {"+?", "plusng"}, {"*", "star"}, {"+", "plus"}, {"?", "opt"}} {
			if strings.HasPrefix(p.s[p.pos:], c.s) {
				p.pos += len(c.s)
				t = &Re{Op: c.op, Kids: []*Re{t}}
				break
			}
		}
		seq.Kids = append(seq.Kids, t)
	}
	if len(seq.Kids) == 1 {
		return seq.Kids[0]
	}
	if len(seq.Kids) == 0 {
		p.fail("empty expression")
	}
	return seq
}

func (p *lexParser) expr() *Re {
	alt := &Re{Op: "alt"}
	for {
		alt.Kids = append(alt.Kids, p.factor())
		p.ws(false)
		if p.pos < len(p.s) && p.s[p.pos] == '|' {
			p.pos++
			continue
		}
		break
	}
	if len(alt.Kids) == 1 {
		return alt.Kids[0]
	}
	return alt
}

func (p *lexParser) actions() []LexAction {
	var out []LexAction
	for {
		p.ws(false)
		if p.pos >= len(p.s) || p.s[p.pos] != '@' {
			return out
		}
		p.pos++
		kw := p.ident()
		arg := ""
		p.ws(false)
		if p.pos < len(p.s) && p.s[p.pos] == '(' {
			p.pos++
			p.ws(false)
			arg = p.ident()
			p.ws(false)
			if p.pos < len(p.s) && p.s[p.pos] == ')' {
				p.pos++
			} else {
				p.fail("')' expected in action")
			}
		}
		switch kw {
		case "discard":
			out = append(out, LexAction{Kind: "discard"})
		case "push_mode":
			out = append(out, LexAction{Kind: "push", Arg: arg})
		case "pop_mode":
			out = append(out, LexAction{Kind: "pop"})
		case "emit":
			out = append(out, LexAction{Kind: "emit", Arg: arg})
		default:
			p.fail("unknown action @%s", kw)
			return out
		}
	}
}

func (p *lexParser) decls(inMode bool) {
	for p.err == nil {
		p.ws(true)
		if p.pos >= len(p.s) {
			return
		}
		if p.s[p.pos] == '}' {
			if !inMode {
				p.fail("unexpected '}'")
			}
			p.pos++
			return
		}
		start := p.pos
		add := func(r *LexRule) {
			r.Src = strings.TrimSpace(p.s[start:p.pos])
			r.Mode = p.mode
			r.Order = len(p.spec.Rules)
			p.spec.Rules = append(p.spec.Rules, r)
		}
		if p.s[p.pos] == '@' {
			p.pos++
			kw := p.ident()
			switch kw {
			case "frag":
				r := &LexRule{Kind: "frag"}
				r.Re = p.expr()
				r.Actions = p.actions()
				add(r)
			case "macro":
				p.ws(false)
				r := &LexRule{Kind: "macro", Name: p.ident()}
				p.ws(false)
				if p.pos < len(p.s) && p.s[p.pos] == '=' {
					p.pos++
				} else {
					p.fail("'=' expected")
				}
				r.Re = p.expr()
				add(r)
			case "mode":
				p.ws(false)
				name := p.ident()
				p.ws(true)
				if p.pos < len(p.s) && p.s[p.pos] == '{' {
					p.pos++
				} else {
					p.fail("'{' expected")
				}
				save := p.mode
				p.mode = name
				p.addMode(name)
				p.decls(true)
				p.mode = save
			case "external":
				for {
					p.ws(false)
					n := p.ident()
					if n == "" {
						break
					}
					add(&LexRule{Kind: "external", Name: n})
				}
			default:
				p.fail("unknown declaration @%s", kw)
			}
			continue
		}
		name := p.ident()
		if name == "" {
			p.fail("declaration expected at %q", p.s[p.pos:min(len(p.s), p.pos+10)])
			return
		}
		p.ws(false)
		if p.pos < len(p.s) && p.s[p.pos] == '=' {
			p.pos++
		} else {
			p.fail("'=' expected after %s", name)
		}
		r := &LexRule{Kind: "token", Name: name}
		r.Re = p.expr()
		r.Actions = p.actions()
		add(r)
	}
}

func (p *lexParser) addMode(name string) {
	for _, m := range p.spec.Modes {
		if m == name {
			return
		}
	}
	p.spec.Modes = append(p.spec.Modes, name)
}

// ParseLexSpec reads a lexer section written in lox syntax.
func ParseLexSpec(name, src string, extra ...string) (*LexSpec, error) {
	spec := &LexSpec{Name: name, Src: src, Modes: []string{""}, Tags: map[string]bool{}, Extra: extra}
	for _, text := range append([]string{src}, extra...) {
		p := &lexParser{s: text, spec: spec}
		p.decls(false)
		if p.err != nil {
			return nil, p.err
		}
	}
	for _, r := range spec.Rules {
		if r.Kind == "token" || r.Kind == "external" {
			spec.Tokens = append(spec.Tokens, r.Name)
		}
	}
	return spec, nil
}

func MustLexSpec(name, src string, extra ...string) *LexSpec {
	s, err := ParseLexSpec(name, src, extra...)
	if err != nil {
		panic(err)
	}
	return s
}

func min(a, b int) int {
	if a < b {
		return a
	}
	return b
}

// ---- Glushkov construction ----

type gPos struct {
	Set  Set
	Rule int
}

type gInfo struct {
	nullable    bool
	first, last []int
}

// RefMode is the position automaton of one mode plus rule effects.
type RefMode struct {
	Name   string
	Pos    []gPos
	First  []int
	Follow [][]int
	Rules  []RefRule
}

type RefRule struct {
	Src      string
	Frag     bool
	Token    string // kind emitted (token rule's own name, or @emit target); "" otherwise
	Effect   string // "accept", "discard", "accum"
	Actions  []LexAction
	Last     []int
	Nullable bool
	NG       bool // contains a non-greedy repetition
}

func (s *LexSpec) macro(name string) *Re {
	for _, r := range s.Rules {
		if r.Kind == "macro" && r.Name == name {
			return r.Re
		}
	}
	return nil
}

type gBuilder struct {
	spec   *LexSpec
	mode   *RefMode
	rule   int
	follow map[int]map[int]bool
	ng     bool
	depth  int
}

func (b *gBuilder) build(re *Re) gInfo {
	switch re.Op {
	case "set":
		id := len(b.mode.Pos)
		b.mode.Pos = append(b.mode.Pos, gPos{Set: re.Set, Rule: b.rule})
		return gInfo{first: []int{id}, last: []int{id}}
	case "ref":
		m := b.spec.macro(re.Ref)
		if m == nil {
			panic("undefined macro " + re.Ref)
		}
		b.depth++
		if b.depth > 20 {
			panic("macro cycle")
		}
		defer func() { b.depth-- }()
		return b.build(m)
	case "seq":
		cur := gInfo{nullable: true}
		for _, k := range re.Kids {
			ki := b.build(k)
			for _, l := range cur.last {
				for _, f := range ki.first {
					b.addFollow(l, f)
				}
			}
			var ni gInfo
			ni.nullable = cur.nullable && ki.nullable
			ni.first = append([]int{}, cur.first...)
			if cur.nullable {
				ni.first = append(ni.first, ki.first...)
			}
			ni.last = append([]int{}, ki.last...)
			if ki.nullable {
				ni.last = append(ni.last, cur.last...)
			}
			cur = ni
		}
		return cur
	case "alt":
		var cur gInfo
		for _, k := range re.Kids {
			ki := b.build(k)
			cur.nullable = cur.nullable || ki.nullable
			cur.first = append(cur.first, ki.first...)
			cur.last = append(cur.last, ki.last...)
		}
		return cur
	case "opt":
		ki := b.build(re.Kids[0])
		ki.nullable = true
		return ki
	case "star", "plus", "starng", "plusng":
		ki := b.build(re.Kids[0])
		for _, l := range ki.last {
			for _, f := range ki.first {
				b.addFollow(l, f)
			}
		}
		if re.Op == "star" || re.Op == "starng" {
			ki.nullable = true
		}
		if re.Op == "starng" || re.Op == "plusng" {
			b.ng = true
		}
		return ki
	}
	panic("build: " + re.Op)
}

func (b *gBuilder) addFollow(p, q int) {
	if b.follow[p] == nil {
		b.follow[p] = map[int]bool{}
	}
	b.follow[p][q] = true
}

// Compile builds the reference automaton of every mode.
func (s *LexSpec) Compile() []*RefMode {
	var modes []*RefMode
	for _, name := range s.Modes {
		m := &RefMode{Name: name}
		b := &gBuilder{spec: s, mode: m, follow: map[int]map[int]bool{}}
		for _, r := range s.Rules {
			if r.Mode != name || (r.Kind != "token" && r.Kind != "frag") {
				continue
			}
			b.rule = len(m.Rules)
			b.ng = false
			info := b.build(r.Re)
			rr := RefRule{Src: r.Src, Frag: r.Kind == "frag", Actions: r.Actions, Last: info.last, Nullable: info.nullable, NG: b.ng}
			rr.Effect = "accum"
			if r.Kind == "token" {
				rr.Effect = "accept"
				rr.Token = r.Name
			}
			for _, a := range r.Actions {
				switch a.Kind {
				case "emit":
					rr.Effect = "accept"
					rr.Token = a.Arg
				case "discard":
					rr.Effect = "discard"
				}
			}
			m.First = append(m.First, info.first...)
			m.Rules = append(m.Rules, rr)
		}
		m.Follow = make([][]int, len(m.Pos))
		for p, qs := range b.follow {
			for q := range qs {
				m.Follow[p] = append(m.Follow[p], q)
			}
			sort.Ints(m.Follow[p])
		}
		modes = append(modes, m)
	}
	return modes
}

// ---- concrete reference lexer (used for self-tests and native triage) ----

type RefToken struct {
	Kind       string // token name, "ERROR", "EOF"
	Start, End int    // rune offsets
}

// RefLex runs the reference semantics on a rune string (greedy rules: longest
// viable run, earliest declared rule; a stretch stops early as soon as a
// non-greedy rule is completely matched).
func (s *LexSpec) RefLex(input []rune, maxTokens int) []RefToken {
	modes := s.Compile()
	byName := map[string]*RefMode{}
	for _, m := range modes {
		byName[m.Name] = m
	}
	cur := modes[0]
	var stack []*RefMode
	var out []RefToken
	o, start := 0, 0
	for len(out) < maxTokens {
		// one stretch
		set := map[int]bool{}
		fresh := true
		k := o
		for k < len(input) {
			next := map[int]bool{}
			c := input[k]
			if fresh {
				for _, q := range cur.First {
					if cur.Pos[q].Set.Has(c) {
						next[q] = true
					}
				}
			} else {
				for p := range set {
					for _, q := range cur.Follow[p] {
						if cur.Pos[q].Set.Has(c) {
							next[q] = true
						}
					}
				}
			}
			if len(next) == 0 {
				break
			}
			set, fresh = next, false
			k++
			ngDone := false
			for _, r := range cur.Rules {
				if r.NG {
					for _, l := range r.Last {
						if set[l] {
							ngDone = true
						}
					}
				}
			}
			if ngDone {
				break
			}
		}
		win := -1
		for ri, r := range cur.Rules {
			hit := false
			if fresh {
				hit = false // a rule never matches the empty string at run time
			} else {
				for _, l := range r.Last {
					if set[l] {
						hit = true
					}
				}
			}
			if hit {
				win = ri
				break
			}
		}
		if win < 0 {
			if fresh && k >= len(input) {
				out = append(out, RefToken{"EOF", start, start})
			} else {
				out = append(out, RefToken{"ERROR", start, k})
			}
			return out
		}
		o = k
		r := cur.Rules[win]
		for _, a := range r.Actions {
			switch a.Kind {
			case "push":
				stack = append(stack, cur)
				cur = byName[a.Arg]
			case "pop":
				if len(stack) == 0 {
					out = append(out, RefToken{"ERROR", start, k})
					return out
				}
				cur = stack[len(stack)-1]
				stack = stack[:len(stack)-1]
			}
		}
		switch r.Effect {
		case "accept":
			out = append(out, RefToken{r.Token, start, o})
			start = o
		case "discard":
			start = o
		}
	}
	return out
}

// ModeAccess finds, for every non-default mode, a string of complete matches
// that leaves the reference lexer in that mode with nothing pending and whose
// last match cannot be extended by any character (so the state machine fires
// the action whatever comes next). Modes for which no such string of at most
// maxLen characters exists are absent.
func (s *LexSpec) ModeAccess(maxLen int) map[int][]rune {
	modes := s.Compile()
	byName := map[string]int{}
	for i, m := range modes {
		byName[m.Name] = i
	}
	// alphabet: lower bounds of every position set, plus one character after
	alpha := map[rune]bool{}
	for _, m := range modes {
		for _, p := range m.Pos {
			for _, r := range p.Set {
				alpha[r.Lo] = true
			}
		}
	}
	var letters []rune
	for r := range alpha {
		letters = append(letters, r)
	}
	sort.Slice(letters, func(i, j int) bool { return letters[i] < letters[j] })
	if len(letters) > 24 {
		letters = letters[:24]
	}
	type cfg struct {
		str   []rune
		mode  int
		stack []int
	}
	// run one complete match of mode mi on str[from:]; returns end, winner or -1, closed
	match := func(mi int, str []rune, from int) (int, int, bool) {
		m := modes[mi]
		set := map[int]bool{}
		fresh := true
		k := from
		for k < len(str) {
			next := map[int]bool{}
			c := str[k]
			if fresh {
				for _, q := range m.First {
					if m.Pos[q].Set.Has(c) {
						next[q] = true
					}
				}
			} else {
				for p := range set {
					for _, q := range m.Follow[p] {
						if m.Pos[q].Set.Has(c) {
							next[q] = true
						}
					}
				}
			}
			if len(next) == 0 {
				break
			}
			set, fresh = next, false
			k++
		}
		if fresh || k != len(str) {
			return k, -1, false
		}
		closed := true
		for p := range set {
			if len(m.Follow[p]) > 0 {
				closed = false
			}
		}
		for ri, r := range m.Rules {
			if r.NG {
				return k, -1, false // keep it simple: no non-greedy rules on the way
			}
			for _, l := range r.Last {
				if set[l] {
					return k, ri, closed
				}
			}
		}
		return k, -1, false
	}
	found := map[int][]rune{}
	work := []cfg{{nil, 0, nil}}
	seen := map[string]bool{}
	for len(work) > 0 {
		c := work[0]
		work = work[1:]
		// extend by one complete, closed match made of 1..3 letters
		var rec func(tok []rune)
		rec = func(tok []rune) {
			if len(c.str)+len(tok) > maxLen || len(tok) > 3 {
				return
			}
			if len(tok) > 0 {
				full := append(append([]rune{}, c.str...), tok...)
				end, win, closed := match(c.mode, full, len(c.str))
				if win >= 0 && closed && end == len(full) {
					mode, stack := c.mode, append([]int{}, c.stack...)
					ok := true
					for _, a := range modes[c.mode].Rules[win].Actions {
						switch a.Kind {
						case "push":
							stack = append(stack, mode)
							mode = byName[a.Arg]
						case "pop":
							if len(stack) == 0 {
								ok = false
							} else {
								mode = stack[len(stack)-1]
								stack = stack[:len(stack)-1]
							}
						}
					}
					if ok && modes[c.mode].Rules[win].Effect != "accum" {
						key := fmt.Sprint(mode, stack)
						if !seen[key] {
							seen[key] = true
							if _, have := found[mode]; !have && mode != 0 {
								found[mode] = full
							}
							work = append(work, cfg{full, mode, stack})
						}
					}
				}
			}
			for _, l := range letters {
				rec(append(append([]rune{}, tok...), l))
			}
		}
		rec(nil)
	}
	return found
}

// ---- printing ----

func (s *LexSpec) firstToken() string {
	for _, r := range s.Rules {
		if r.Kind == "token" {
			return r.Name
		}
	}
	return ""
}

// LoxFiles renders the specification files: the lexer section followed by a
// trivial parser that accepts any sequence of the first token.
func (s *LexSpec) LoxFiles() []string {
	main := "@lexer\n\n" + strings.TrimSpace(s.Src) + "\n\n@parser\n\n@start s = " + s.firstToken() + "*\n"
	out := []string{main}
	for _, e := range s.Extra {
		out = append(out, "@lexer\n\n"+strings.TrimSpace(e)+"\n")
	}
	return out
}

func (s *LexSpec) ParserGo(pkg string) string {
	return fmt.Sprintf(`package %s

import "github.com/dcaiafa/loxlex/simplelexer"

type Token = simplelexer.Token

type parser struct {
	lox
}

func (p *parser) on_s(ts []Token) any { return nil }
`, pkg)
}

func setLiteral(s Set) string {
	var sb strings.Builder
	sb.WriteString("[]ref.Range{")
	for _, r := range s {
		fmt.Fprintf(&sb, "{%d, %d}, ", r.Lo, r.Hi)
	}
	sb.WriteString("}")
	return sb.String()
}

func intsLiteral(xs []int) string {
	var sb strings.Builder
	sb.WriteString("[]int{")
	for _, x := range xs {
		fmt.Fprintf(&sb, "%d, ", x)
	}
	sb.WriteString("}")
	return sb.String()
}

// HarnessGo renders zz_harness.go for a lexer item.
func (s *LexSpec) HarnessGo(pkg string) string {
	var sb strings.Builder
	fmt.Fprintf(&sb, "package %s\n\nimport (\n\tgotoken \"go/token\"\n\n\t\"github.com/dcaiafa/loxlex/simplelexer\"\n\t\"vgen/ref\"\n\t\"vgen/vrt\"\n)\n\n", pkg)
	modes := s.Compile()
	modeIdx := map[string]int{}
	for i, m := range modes {
		modeIdx[m.Name] = i
	}
	sb.WriteString("var hLexSpec = &ref.LexSpec{\n\tModes: []*ref.LexMode{\n")
	for _, m := range modes {
		fmt.Fprintf(&sb, "\t\t{Name: %q,\n\t\t\tPos: []ref.LexPos{\n", m.Name)
		for _, p := range m.Pos {
			fmt.Fprintf(&sb, "\t\t\t\t{Set: %s, Rule: %d},\n", setLiteral(p.Set), p.Rule)
		}
		fmt.Fprintf(&sb, "\t\t\t},\n\t\t\tFirst: %s,\n\t\t\tFollow: [][]int{", intsLiteral(m.First))
		for _, f := range m.Follow {
			sb.WriteString(intsLiteral(f) + ", ")
		}
		sb.WriteString("},\n\t\t\tRules: []ref.LexRule{\n")
		for _, r := range m.Rules {
			eff := map[string]string{"accept": "ref.EffAccept", "discard": "ref.EffDiscard", "accum": "ref.EffAccum"}[r.Effect]
			tok := "-1"
			if r.Token != "" {
				tok = r.Token
			}
			fmt.Fprintf(&sb, "\t\t\t\t{Src: %q, Effect: %s, Token: %s, Last: %s, Nullable: %v, NG: %v, Actions: []ref.LexAct{", r.Src, eff, tok, intsLiteral(r.Last), r.Nullable, r.NG)
			for _, a := range r.Actions {
				switch a.Kind {
				case "push":
					fmt.Fprintf(&sb, "{Push: true, Mode: %d}, ", modeIdx[a.Arg])
				case "pop":
					sb.WriteString("{Pop: true}, ")
				}
			}
			sb.WriteString("}},\n")
		}
		sb.WriteString("\t\t\t},\n\t\t},\n")
	}
	sb.WriteString("\t},\n}\n\n")
	sb.WriteString("// hModeAccess: a string of complete, non-extendable matches that enters the mode\nvar hModeAccess = map[int][]rune{")
	acc := s.ModeAccess(6)
	var mis []int
	for mi := range acc {
		mis = append(mis, mi)
	}
	sort.Ints(mis)
	for _, mi := range mis {
		fmt.Fprintf(&sb, "%d: {", mi)
		for _, r := range acc[mi] {
			fmt.Fprintf(&sb, "%d, ", r)
		}
		sb.WriteString("}, ")
	}
	sb.WriteString("}\n\n")
	sb.WriteString("var hTokNames = map[int]string{EOF: \"EOF\", ERROR: \"ERROR\"")
	for _, t := range s.Tokens {
		fmt.Fprintf(&sb, ", %s: %q", t, t)
	}
	sb.WriteString("}\n\nvar hTokOrder = []int{")
	for _, t := range s.Tokens {
		sb.WriteString(t + ", ")
	}
	sb.WriteString("}\n\nvar hTokOrderNames = []string{")
	for _, t := range s.Tokens {
		fmt.Fprintf(&sb, "%q, ", t)
	}
	sb.WriteString("}\n")
	sb.WriteString(lexHarnessBody)
	return sb.String()
}

const lexHarnessBody = `
// hSM wraps the generated state machine and records every call.
type hSM struct {
	inner *_LexerStateMachine
	log   []ref.LexStep
}

func (s *hSM) PushRune(r rune) int {
	a := s.inner.PushRune(r)
	st := ref.LexStep{R: r, Action: a}
	if a == 1 {
		st.Token = s.inner.Token()
	}
	s.log = append(s.log, st)
	return a
}

func (s *hSM) Token() int { return s.inner.Token() }
func (s *hSM) Reset()     { s.inner.Reset() }

func hInput() []byte {
	nb := vrt.Param("bytes", 2)
	input := make([]byte, nb)
	ascii := vrt.Param("ascii", 0) == 1
	for i := range input {
		input[i] = vrt.Byte(vrt.Name("b", i))
		if ascii {
			vrt.Assume(input[i] < 0x80)
		}
	}
	return input
}

// hRun drives the real simplelexer over the input and returns the recorded
// state-machine steps and the tokens it produced (up to and including the
// first EOF or ERROR token).
func hRun(input []byte, maxTokens int) (*hSM, []ref.LexTok, bool) {
	sm := &hSM{inner: new(_LexerStateMachine)}
	fset := gotoken.NewFileSet()
	file := fset.AddFile("input", -1, len(input))
	lx := simplelexer.New(simplelexer.Config{StateMachine: sm, File: file, Input: input})
	var toks []ref.LexTok
	for i := 0; i < maxTokens; i++ {
		t, ty := lx.ReadToken()
		lt := ref.LexTok{Type: ty, Len: len(t.Str), Pos: int(t.Pos) - file.Base(), Steps: len(sm.log)}
		if len(t.Str) > 0 {
			// the text is a sub-slice of the input: find its start by identity
			lt.Start = -1
			for k := range input {
				if &input[k] == &t.Str[0] {
					lt.Start = k
				}
			}
		} else {
			lt.Start = lt.Pos
		}
		toks = append(toks, lt)
		if ty == EOF || ty == ERROR {
			return sm, toks, true
		}
	}
	return sm, toks, false
}

// H_Lex (C02, C07, C08): the token stream is the one the rules define.
func H_Lex() {
	input := hInput()
	sm, toks, ended := hRun(input, 2*len(input)+2)
	msg := ref.CheckLex(hLexSpec, input, sm.log, toks, ended, false)
	vrt.Observe("lex", msg)
	vrt.Assert(msg == "", "token-stream")
	if len(toks) > 1 {
		vrt.Reach("two-tokens")
	}
}

// H_Twin (C18): two lexer instances share no mutable state.
func H_Twin() {
	nb := vrt.Param("bytes", 2)
	ia := make([]byte, nb)
	ib := make([]byte, nb)
	for i := 0; i < nb; i++ {
		ia[i] = vrt.Byte(vrt.Name("a", i))
		ib[i] = ia[i] // the same input: same path, same shared cells under go test -race
	}
	var ta, tb []ref.LexTok
	vrt.Twin(func() { _, ta, _ = hRun(ia, 2*nb+2) }, func() { _, tb, _ = hRun(ib, 2*nb+2) })
	vrt.Assert(vrt.MonitorShared() == 0, "instances-share-no-mutable-state")
	vrt.Assert(vrt.MonitorGlobalWrites() == 0, "no-writes-to-package-level-state")
	_, tc, _ := hRun(ia, 2*nb+2)
	vrt.Assert(len(tc) == len(ta), "same-result-as-sequential")
	for i := range tc {
		if i < len(ta) {
			vrt.Assert(tc[i].Type == ta[i].Type && tc[i].Start == ta[i].Start && tc[i].Len == ta[i].Len, "same-result-as-sequential")
		}
	}
	_ = tb
	vrt.Reach("twin")
}

// H_Terminates (C11): reading tokens reaches EOF or ERROR within 2*len+2
// reads (no reference involved: used for items without a defined meaning).
func H_Terminates() {
	input := hInput()
	_, _, ended := hRun(input, 2*len(input)+2)
	vrt.Assert(ended, "reaches-eof")
}

// H_Account (C11): termination and accounting for every byte.
func H_Account() {
	input := hInput()
	sm, toks, ended := hRun(input, 2*len(input)+2)
	vrt.Assert(ended, "reaches-eof")
	msg := ref.CheckLex(hLexSpec, input, sm.log, toks, ended, true)
	vrt.Observe("lex", msg)
	vrt.Assert(msg == "", "accounting")
}

// H_TokNumbers (C19): EOF = 0, ERROR = 1, others dense in declaration order.
func H_TokNumbers() {
	vrt.Assert(EOF == 0, "eof-is-0")
	vrt.Assert(ERROR == 1, "error-is-1")
	for i, k := range hTokOrder {
		vrt.Assert(k == i+2, "dense-declaration-order")
	}
	vrt.Reach("numbers")
}

// H_PushRuneUnit (C10, C02): two steps of the generated state machine on an
// arbitrary well-formed row shared by states 0 and 1: k sorted disjoint ranges
// with symbolic bounds and targets, a symbolic non-greedy flag, one accept
// action.
func H_PushRuneUnit() {
	k := vrt.Param("ranges", 2)
	// table: [row of state 0][row of state 1][count, flags, gotoN, (B,E,T)*k, 3, TOKEN]
	n := 2 + 3*k + 2
	table := make([]uint32, 2+1+n)
	table[0] = 2
	table[1] = 2
	table[2] = uint32(n)
	flag := vrt.Bool("ng")
	table[3] = 0
	if flag {
		table[3] = 1
	}
	table[4] = uint32(k)
	bs := make([]rune, k)
	es := make([]rune, k)
	ts := make([]uint32, k)
	for j := 0; j < k; j++ {
		bs[j] = vrt.Rune(vrt.Name("B", j))
		es[j] = vrt.Rune(vrt.Name("E", j))
		ts[j] = vrt.Uint32(vrt.Name("T", j))
		vrt.Assume(vrt.And(0 <= bs[j], vrt.And(bs[j] <= es[j], es[j] <= 0x10FFFF)))
		if j > 0 {
			vrt.Assume(es[j-1] < bs[j])
		}
		vrt.Assume(ts[j] <= 1)
		table[5+3*j] = uint32(bs[j])
		table[6+3*j] = uint32(es[j])
		table[7+3*j] = ts[j]
	}
	table[5+3*k] = 3
	tok := vrt.Uint32("tok")
	vrt.Assume(tok < 1000)
	table[6+3*k] = tok
	inRange := func(r rune) (bool, uint32) {
		in := false
		target := uint32(0)
		for j := k - 1; j >= 0; j-- {
			hit := vrt.And(bs[j] <= r, r <= es[j])
			in = vrt.Or(in, hit)
			if hit {
				target = ts[j]
			}
		}
		return in, target
	}
	sm := &_LexerStateMachine{mode: table}
	for step := 0; step < 2; step++ {
		r := vrt.Rune(vrt.Name("r", step))
		vrt.Assume(vrt.And(-1 <= r, r <= 0x10FFFF))
		got := sm.PushRune(r)
		in, target := inRange(r)
		vrt.Assert(vrt.Iff(got == 0, vrt.And(in, vrt.Not(flag))), "consume-iff-in-a-range")
		if got == 0 {
			vrt.Reach("consume")
			vrt.Assert(uint32(sm.state) == target, "target-of-the-range")
			continue
		}
		if step == 0 {
			// nothing consumed yet: a rule never matches the empty string
			vrt.Assert(vrt.Iff(got == 4, r == -1), "eof-only-on-end-of-input")
			vrt.Assert(got == 4 || got == -1, "no-empty-match")
		} else {
			vrt.Reach("accept")
			vrt.Assert(got == 1, "accept-after-consuming")
			vrt.Assert(sm.Token() == int(tok), "accepted-token")
			vrt.Assert(sm.state == 0, "back-to-start")
		}
		return
	}
}

// H_RowInvariant (C10 precondition, concrete): every emitted row is
// well-formed: row inside the table, ranges sorted, disjoint, B <= E <=
// U+10FFFF, targets name existing states, action section made of known
// (type, parameter) pairs with modes in range.
func H_RowInvariant() {
	for mi, mode := range _lexerModes {
		nstates := 0
		for nstates < len(mode) && int(mode[nstates]) >= nstates && (nstates == 0 || true) {
			// the index section ends where the first row starts
			if nstates > 0 && nstates >= int(mode[0]) {
				break
			}
			nstates++
		}
		for st := 0; st < nstates; st++ {
			i := int(mode[st])
			vrt.Assert(i >= nstates && i < len(mode), "row-offset-inside-table")
			count := int(mode[i])
			end := i + 1 + count
			vrt.Assert(end <= len(mode) && count >= 2, "row-inside-table")
			gotoN := int(mode[i+2])
			k := i + 3
			vrt.Assert(k+3*gotoN <= end, "ranges-inside-row")
			prevE := int64(-1)
			for j := 0; j < gotoN; j++ {
				b, e, t := int64(mode[k+3*j]), int64(mode[k+3*j+1]), int(mode[k+3*j+2])
				vrt.Assert(b <= e && e <= 0x10FFFF, "range-well-formed")
				vrt.Assert(b > prevE, "ranges-sorted-and-disjoint")
				vrt.Assert(t < nstates, "target-is-a-state")
				prevE = e
			}
			acts := k + 3*gotoN
			vrt.Assert((end-acts)%2 == 0, "actions-are-pairs")
			for a := acts; a+1 < end; a += 2 {
				typ, par := mode[a], int(mode[a+1])
				vrt.Assert(typ >= 1 && typ <= 5, "known-action-type")
				if typ == 1 {
					vrt.Assert(par < len(_lexerModes), "mode-parameter-in-range")
				}
			}
		}
		_ = mi
	}
	vrt.Reach("rows-checked")
}

// H_Product (C10): one step of the product of the emitted table of the default
// mode with the reference position automaton, from the configuration reached by
// a concrete access string (parameters alen, a0..), for every rune at once.
// Completed paths that consume report the successor pair (table state,
// position set); the driver closes the set of pairs, which makes the agreement
// hold for strings of any length (within one match of the default mode).
func H_Product() {
	n := vrt.Param("alen", 0)
	mi := vrt.Param("mode", 0)
	sm := new(_LexerStateMachine)
	m := hLexSpec.Modes[mi]
	m.Prepare()
	// enter the mode through complete matches (the action of the last one
	// fires on the first call with the next rune, whatever it is)
	prefix := hModeAccess[mi]
	feed := func(x rune) bool {
		for try := 0; try < 4; try++ {
			switch sm.PushRune(x) {
			case 0:
				return true
			case 1, 2, 3:
				continue
			default:
				return false
			}
		}
		return false
	}
	for _, x := range prefix {
		if !feed(x) {
			vrt.Assert(false, "mode-access-string-is-lexed")
			return
		}
	}
	var s []bool
	for i := 0; i < n; i++ {
		a := rune(vrt.Param(vrt.Name("a", i), 0))
		if !feed(a) {
			vrt.Assert(false, "access-string-is-consumed")
			return
		}
		s = m.Step(s, a)
	}
	r := vrt.Rune("r")
	vrt.Assume(vrt.And(-1 <= r, r <= 0x10FFFF))
	got := sm.PushRune(r)
	if len(prefix) > 0 && n == 0 {
		// the pending action of the last match of the prefix
		vrt.Assert(got == 1 || got == 2 || got == 3, "boundary-action-fires-on-any-rune")
		got = sm.PushRune(r)
	}
	s2 := m.Step(s, r)
	ngc := m.NgComplete(s)
	should := vrt.And(ref.AnyOf(s2), !ngc)
	vrt.Assert(vrt.Iff(got == 0, should), "consume-iff-still-a-viable-prefix")
	if got == 0 {
		key := vrt.Name("S", sm.state) + ":"
		for q := range s2 {
			if s2[q] {
				key += "1"
			} else {
				key += "0"
			}
		}
		vrt.Observe("collect", key)
		vrt.Reach("step")
		return
	}
	vrt.Reach("stop")
	win := -1
	for ri := range m.Rules {
		if m.Hit(s, ri) {
			win = ri
			break
		}
	}
	if win < 0 {
		if s == nil {
			vrt.Assert(vrt.Iff(got == 4, r == -1), "eof-only-between-matches-at-end-of-input")
			vrt.Assert(got == 4 || got == -1, "nothing-matches-is-an-error")
		} else {
			vrt.Assert(got == -1, "nothing-matches-is-an-error")
		}
		return
	}
	rule := m.Rules[win]
	// a @pop_mode with nothing on the mode stack is undefined by the
	// documentation (the generated code reports an error): no expectation then.
	// The default mode entered directly has an empty stack; a mode entered
	// through the access prefix has at least one entry.
	depth := 0
	if len(prefix) > 0 {
		depth = 1
	}
	for _, a := range rule.Actions {
		if a.Push {
			depth++
		}
		if a.Pop {
			if depth == 0 {
				vrt.Reach("pop-on-empty-stack-undefined")
				return
			}
			depth--
		}
	}
	switch rule.Effect {
	case ref.EffAccept:
		vrt.Assert(got == 1 && sm.Token() == rule.Token, "accepts-the-earliest-matching-rule")
	case ref.EffDiscard:
		vrt.Assert(got == 2, "discards-for-the-earliest-matching-rule")
	default:
		vrt.Assert(got == 3, "accumulates-for-the-earliest-matching-rule")
	}
}

// H_TokString (C19): _TokenToString over a symbolic int.
func H_TokString() {
	t := vrt.Int("t")
	s := _TokenToString(t)
	want := "???"
	for k, name := range hTokNames {
		if t == k {
			want = name
		}
	}
	vrt.Assert(s == want, "token-to-string")
	if s != "???" {
		vrt.Reach("named")
	} else {
		vrt.Reach("unknown")
	}
}
`
