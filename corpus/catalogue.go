package corpus

// ParserLanguage lists the grammars without precedence qualifiers and without
// @error used by C01, C03, C04, C10, C16, C18, C19. Each is aimed at a
// mechanism named in the property file.
func ParserLanguage() []*Grammar {
	src := [][3]string{
		// FIRST visits a nullable rule twice (once per sibling)
		{"P-null-dup", "t = q s Z ; q = Q ; s = a X | b Y ; a = n A ; b = n B ; n = N | @empty", "accept"},
		// left-recursive list with empty base after another symbol
		{"P-null-list", "s = c xs ; c = C ; xs = xs X | @empty", "accept"},
		{"P-null-amb", "s = n n C ; n = N | @empty", "reject"},
		{"P-null-nest", "s = a b c D ; a = A | @empty ; b = a B | @empty ; c = b C | @empty", ""},
		{"P-rec-left", "l = l A | A", "accept"},
		{"P-rec-right", "r = A r | A", "accept"},
		{"P-rec-mid", "m = A m B | C", "accept"},
		{"P-expr", "e = e PLUS t | t ; t = t MUL f | f ; f = LP e RP | NUM", "accept"},
		{"P-lalr", "s = l EQ r | r ; l = STAR r | ID ; r = l", "accept"},
		{"P-lr1", "s = A x D | B y D | A y E | B x E ; x = C ; y = C", "reject"},
		{"P-lr2", "s = A? A", "reject"},
		{"P-opt", "s = A? B* C+", "accept"},
		{"P-optrule", "s = e? f* g+ ; e = A B ; f = C ; g = D | E", "accept"},
		{"P-share", "s = A* X A*", "accept"},
		{"P-filter", "s = item*! ; item = A | B", "accept"},
		{"P-filter-tok", "s = X A*! Y", "accept"},
		{"P-list", "s = @list(A,COMMA)", "accept"},
		{"P-listopt", "s = LB @list(e,COMMA)? RB ; e = A | B", "accept"},
		{"P-nestsugar", "s = p* ; p = A q? ; q = B+ C", "accept"},
		{"P-bounds", "s = o A p B q ; o = X | @empty ; p = Y? ; q = Z*", "accept"},
		{"P-allempty", "s = o p q ; o = X | @empty ; p = Y? ; q = Z*", "accept"},
		{"P-dangling", "s = IF s | IF s ELSE s | X", "reject"},
		{"P-epsonly", "s = @empty", "accept"},
		{"P-twonull", "s = a b ; a = A | @empty ; b = B | @empty", "accept"},
		{"P-nullmid", "s = A n B ; n = m m ; m = M | @empty", "reject"},
		{"P-nullchain", "s = a X ; a = b ; b = c ; c = C | @empty", "accept"},
		{"P-palin", "s = A s A | B", "accept"},
		{"P-paren", "s = e ; e = LP e RP | NUM", "accept"},
		{"P-rightrec-trailer", "rec = zed rec C | Y ; zed = Z", "accept"},
		{"P-rightrec-trailer2", "s = a s B | a ; a = A", "accept"},
		{"P-transnull", "d = m LET ID t SEMI ; m = P? S? ; t = END m", "accept"},
		{"P-transnull2", "d = w X w ; w = v ; v = u ; u = Y? Z*", "accept"},
		{"P-adjlists", "s = A+ B* C", "accept"},
		{"P-adjlists2", "s = x+ y* Z ; x = A ; y = B", "accept"},
		{"P-adjlists3", "s = g B* D ; g = LB @list(A,COMMA) RB", "accept"},
		{"P-adjfilter", "s = A+ B*! C", "accept"},
		{"P-adjopt", "s = A+ @list(B,COMMA)? C", "accept"},
		// two lists over one element with different separators (helper rules must
		// not be shared), plain, optional and with rules as separators
		{"P-twolists", "s = @list(A,COMMA) X @list(A,SEMI)", "accept"},
		{"P-twolists-opt", "s = @list(A,COMMA)? X @list(A,SEMI)?", "accept"},
		{"P-twolists-rule", "s = @list(a,c) X @list(a,d) ; a = A ; c = COMMA ; d = SEMI | COMMA", "accept"},
		{"P-twocards", "s = a* X a+ Y a? ; a = A", "accept"},
	}
	var out []*Grammar
	for _, s := range src {
		g := MustGrammar(s[0], s[1])
		g.Expect = s[2]
		out = append(out, g)
	}
	// a state with 36 look-aheads, tokens declared in reverse alphabetical order
	wide := "s = w* ; w = "
	for i := 35; i >= 0; i-- {
		if i < 35 {
			wide += " | "
		}
		wide += "T" + string(rune('A'+i/6)) + string(rune('A'+i%6))
	}
	w := MustGrammar("P-wide", wide)
	w.Expect = "accept"
	w.MaxN = 1
	out = append(out, w)
	return out
}

// WithNaming returns copies whose rule names sort before all token names
// (lox sorts grammar symbols by name in several places).
func WithNaming(gs []*Grammar) []*Grammar {
	var out []*Grammar
	for _, g := range gs {
		c := MustGrammar(g.Name+"~B", g.Src)
		c.Expect = g.Expect
		c.OnBounds = g.OnBounds
		c.MaxN = g.MaxN
		c.Naming = "B"
		out = append(out, c)
	}
	return out
}

// WithBounds returns copies of the grammars that define _onBounds.
func WithBounds(gs []*Grammar) []*Grammar {
	var out []*Grammar
	for _, g := range gs {
		c := MustGrammar(g.Name+"+B", g.Src)
		c.Expect = g.Expect
		c.MaxN = g.MaxN
		c.OnBounds = true
		out = append(out, c)
	}
	return out
}

// ParserPrecedence: operator tables for C05. Every item has the shape
// e = e OP e @assoc(n) | ... | LP e RP | NUM | ID LP e RP.
func ParserPrecedence() []*Grammar {
	type op struct {
		assoc string
		prec  int
	}
	mk := func(name string, ops ...op) *Grammar {
		src := "e = "
		for i, o := range ops {
			src += "e OP" + string(rune('A'+i)) + " e @" + o.assoc + "(" + itoa(o.prec) + ") | "
		}
		src += "LP e RP | NUM | ID LP e RP"
		return MustGrammar(name, src)
	}
	L := func(n int) op { return op{"left", n} }
	R := func(n int) op { return op{"right", n} }
	return []*Grammar{
		mk("O-L1", L(1)),
		mk("O-R1", R(1)),
		mk("O-L1L1", L(1), L(1)),
		mk("O-R1R1", R(1), R(1)),
		mk("O-L1L2", L(1), L(2)),
		mk("O-L2L1", L(2), L(1)),
		mk("O-L1R2", L(1), R(2)),
		mk("O-R1L2", R(1), L(2)),
		mk("O-R1R2", R(1), R(2)),
		mk("O-L1L1R2R2", L(1), L(1), R(2), R(2)),
		mk("O-L1L2R3", L(1), L(2), R(3)),
		mk("O-L7L3", L(7), L(3)),
		mk("O-L100L300", L(100), L(300)),
		mk("O-R2L257R70000", R(2), L(257), R(70000)),
		mk("O-L1Lmax", L(1), L(9223372036854775807)),
		MustGrammar("O-unary", "e = e OPA e @left(1) | e OPB e @left(2) | OPA e | NUM"),
		// two expression rules using the same operator tokens at different levels
		MustGrammar("O-tworules", "s = e | COLON t ; e = e OPA e @left(1) | e OPB e @left(2) | LP e RP | NUM ; t = t OPB t @left(1) | t OPA t @left(2) | LP t RP | NUM"),
		MustGrammar("O-tworules2", "s = e SEMI t ; e = e OPA e @right(2) | e OPB e @left(1) | NUM ; t = t OPA t @left(1) | t OPB t @left(2) | ID"),
	}
}

func itoa(n int) string {
	if n == 0 {
		return "0"
	}
	s := ""
	for n > 0 {
		s = string(rune('0'+n%10)) + s
		n /= 10
	}
	return s
}

// ParserRecovery: @error placements for C09.
func ParserRecovery() []*Grammar {
	src := [][2]string{
		{"E-start", "s = A B | @error"},
		{"E-mid", "s = A @error B"},
		{"E-end", "s = A @error"},
		{"E-list", "p = st* ; st = ID EQ NUM SEMI | @error SEMI"},
		{"E-block", "p = st* ; st = ID EQ NUM SEMI | LB st* RB | @error SEMI | LB @error RB"},
		{"E-merged", "s = TA aa TX | TB aa TY ; aa = @error"},
		{"E-nullpre", "s = o @error A ; o = B | @empty"},
		{"E-two", "s = A @error B @error C"},
		{"E-expr", "e = e PLUS t | t ; t = NUM | LP e RP | LP @error RP"},
		{"E-listsep", "s = @list(x,COMMA) ; x = A | @error"},
		{"E-startonly", "s = @error"},
		{"E-after", "s = A b ; b = B | @error C"},
		{"E-list2", "p = st* ; st = A SEMI | @error SEMI"},
		{"E-list3", "p = st* ; st = A | @error SEMI"},
		{"E-call", "s = LB st* RB ; st = c SEMI | @error SEMI ; c = ID LP a? RP ; a = NUM"},
		{"E-merged-eof", "s = TA aa TX | TB aa ; aa = TC | @error"},
		{"E-merged-eof2", "s = TA aa | TB aa TY ; aa = @error"},
		{"E-merged3", "s = TA aa TX | TB aa TY | TC aa ; aa = bb ; bb = TD | @error"},
		{"E-nested", "s = LB t RB | LB @error RB ; t = A s | A"},
	}
	var out []*Grammar
	for _, s := range src {
		out = append(out, MustGrammar(s[0], s[1]))
	}
	return out
}

func lexItems(src [][2]string, tags ...string) []*LexSpec {
	var out []*LexSpec
	for _, s := range src {
		l := MustLexSpec(s[0], s[1])
		for _, t := range tags {
			l.Tags[t] = true
		}
		out = append(out, l)
	}
	return out
}

// LexGreedy: items for C02 (greedy operators only, no nullable rule, one mode).
func LexGreedy() []*LexSpec {
	return lexItems([][2]string{
		{"L-kw1", "IF = 'if'\nID = [a-z]+"},
		{"L-kw2", "ID = [a-z]+\nIF = 'if'"},
		{"L-pfx", "A = 'ab'\nB = 'abcd'"},
		{"L-ovl", "A = [a-m]+\nB = [k-z]+"},
		{"L-nest", "A = [a-z]\nB = [m]\nC = [a-z][a-z]"},
		{"L-touch", "A = [a-m][n-z]\nB = [a-z]+"},
		{"L-ext", "A = [\\u0000-a]\nB = [z-\\U0010FFFF]\nC = ."},
		{"L-neg", "A = ~[a-c]\nB = [a-c]+"},
		{"L-diff", "A = [a-z]-[m-p]\nB = [m-p]+"},
		{"L-ops", "A = ('ab'|'cd')* 'e'\nB = 'a'? 'b'+"},
		{"L-mac", "@macro D = [0-9]\n@macro N = D+ ('.' D+)?\nNUM = N"},
		{"L-utf", "A = 'é'\nB = '世'\nC = '𓅃'\nD = [一-鿿]+\nE = ~[\\u0000-\\uFFFF]"},
		{"L-ws", "NUM = [0-9]+\nID = [a-z_][a-z0-9_]*\n@frag [ \\t\\n]+ @discard"},
		{"L-esc", "A = '\\n'\nB = '\\t\\\\'\nC = [\\n\\-\\\\]+\nD = '\\x41\\u00e9'"},
		{"L-dashcls", "A = [a\\-z]+\nB = [b-y]"},
		{"L-tri", "K = 'e'\nX = [a-f]+\nY = [c-z]+"},
		{"L-quad", "WIDE = [a-z] '1'\nMID = [d-f] '2'\nTAIL = [g-z] '3'\nINNER = [m-p] '4'"},
		{"L-nested", "W = [a-zc]+\nN = [0-95]+\nS = ~[a-z0-9 q]"},
		{"L-tri2", "X = [a-m]\nY = [h-z]\nZ = [j-k]+ 'x'"},
		{"L-loopstart", "A = 'x'* 'y'\nB = 'z'"},
		{"L-loopstart2", "A = ('a'|'b')* 'c'"},
		{"L-nul", "S = '\"' ~[\"]* '\"'\nW = [a-z]+\nN = '\\x00' '!'\nANY = ."},
		// a later, more general rule whose accepting state looks like the state
		// shared with an earlier rule (minimisation must keep them apart)
		{"L-opassign", "INC = '++'\nSUB_ASSIGN = '-='\nOP_ASSIGN = [+\\-] '='\nNUM = [0-9]+"},
		{"L-units", "MS = 'ms'\nKB = 'kb'\nSIZE = [km] 'b'"},
		{"L-shift", "SHL = '<<'\nGE = '>='\nCMPEQ = [<>] '='"},
		// loops whose body can match the empty string (ε cycles in the NFA)
		{"L-nullbody", "WORD = [a-c] ([a-c]* '-'?)*\nNUM = [0-9]+"},
		{"L-nullbody2", "A = 'x' ('a'?)* 'y'\nB = ('p'* 'q'*)+ 'r'\nC = ('m'? 'n'?)+"},
		{"L-nullbody3", "A = (('a'|'b'?)* 'c'?)* 'd'\nB = 'a'+"},
	})
}

// LexModes: items for C07.
func LexModes() []*LexSpec {
	return lexItems([][2]string{
		{"L-mode1", "PLUS = '+'\nMINUS = '-'\nOPAREN = '(' @push_mode(Alt)\n@mode Alt {\nDASH = '-'\nCPAREN = ')' @pop_mode\n}"},
		{"L-mode2", "ID = [a-z]+\nQ = '\"' @push_mode(String)\nRB = '}' @pop_mode\n@mode String {\nCHARS = [a-z]+\nINTERP = '{' @push_mode()\nEQ = '\"' @pop_mode\n}"},
		{"L-mode3", "A = 'a' @push_mode(M1)\n@mode M1 {\nB = 'b' @push_mode(M2)\nB1 = 'x' @pop_mode\nB2 = 'r' @push_mode(M1)\n}\n@mode M2 {\nC = 'c' @push_mode(M2)\nC1 = 'x' @pop_mode\n}"},
		{"L-act-poppush", "A = 'a' @push_mode(M)\n@mode M {\nB = 'b' @pop_mode @push_mode(N)\nX = 'x'\n}\n@mode N {\nC = 'c' @pop_mode\nY = 'y'\n}"},
		{"L-act-pushpush", "K = 'k' @push_mode(M) @push_mode(N)\nZ = 'z'\n@mode M {\nP = 'p' @pop_mode\nQ = 'q'\n}\n@mode N {\nN1 = 'n' @pop_mode\nR = 'r'\n}"},
		{"L-act-emitpush", "X = 'x'\n@frag 'q' @emit(X) @push_mode(M)\n@mode M {\nY = 'y' @pop_mode\n}"},
		{"L-act-pushemit", "X = 'x'\n@frag 'q' @push_mode(M) @emit(X)\n@mode M {\nY = 'y' @pop_mode\n}"},
		{"L-act-discardpop", "A = 'a' @push_mode(M)\n@mode M {\nB = 'b'\n@frag 'd' @discard @pop_mode\n}"},
		{"L-act-popdiscard", "A = 'a' @push_mode(M)\n@mode M {\nB = 'b'\n@frag 'd' @pop_mode @discard\n}"},
		{"L-act-fragpush", "A = 'a'\n@frag 'k' @push_mode(M)\n@mode M {\nB = 'b' @pop_mode\n}"},
		{"L-act3-dpp", "A = 'a' @push_mode(X)\n@mode X {\nB = 'b'\n@frag '!' @discard @pop_mode @push_mode(Y)\n}\n@mode Y {\nC = 'c' @pop_mode\nD = 'd'\n}"},
		{"L-act3-pdp", "A = 'a' @push_mode(X)\n@mode X {\nB = 'b'\n@frag '!' @pop_mode @discard @push_mode(Y)\n}\n@mode Y {\nC = 'c' @pop_mode\nD = 'd'\n}"},
		{"L-act3-epp", "A = 'a' @push_mode(X)\nEX = 'x'\n@mode X {\nB = 'b'\n@frag '!' @emit(EX) @pop_mode @push_mode(Y)\n}\n@mode Y {\nC = 'c' @pop_mode\nD = 'd'\n}"},
		{"L-act3-dpush2", "A = 'a'\n@frag '!' @discard @push_mode(X) @push_mode(Y)\n@mode X {\nB = 'b' @pop_mode\n}\n@mode Y {\nC = 'c' @pop_mode\n}"},
		{"L-act3-tok", "A = 'a' @push_mode(X) @push_mode(Y) @pop_mode\n@mode X {\nB = 'b' @pop_mode\n}\n@mode Y {\nC = 'c' @pop_mode\n}"},
		{"L-act-poppop", "K = 'k' @push_mode(M1) @push_mode(M2)\nZ = 'z'\n@mode M1 {\nP = 'p' @pop_mode\nQ = 'z'\n}\n@mode M2 {\nBOTH = '!' @pop_mode @pop_mode\nR = 'r'\n}"},
		{"L-act-popemitpop", "K = 'k' @push_mode(M1) @push_mode(M2)\nZ = 'z'\nT = 't'\n@mode M1 {\nQ = 'z'\n}\n@mode M2 {\n@frag '!' @pop_mode @emit(T) @pop_mode\nR = 'r'\n}"},
		{"L-mode-empty", "ID = [g-z]+\n@mode Common {\n@macro HEX = [0-9a-f]\n}\nOP = '(' @push_mode(Paren)\n@mode Paren {\nCP = ')' @pop_mode\nHN = HEX+\n}\n@mode Str {\nSC = [a-z]+\nSQ = '\"' @pop_mode\n}\nQ = '\"' @push_mode(Str)"},
		{"L-acc", "@frag '\\'' @push_mode(Lit)\nID = [a-z]+\n@mode Lit {\nLITERAL = '\\'' @pop_mode\n@frag '\\\\' [\\\\'n]\n@frag ~[\\\\\\n']\n}"},
	})
}

// LexNonGreedy: items for C08 (prefix, non-greedy repetition of a one-character
// expression, literal terminator).
func LexNonGreedy() []*LexSpec {
	return lexItems([][2]string{
		{"L-ng1", "C = '/*' .*? '*/'\nID = [a-z]+"},
		{"L-ng2", "C = '<!--' .*? '-->'"},
		{"L-ng3", "C = 'a' .*? 'aab'"},
		{"L-ng4", "C = '\"' [a-z\"]*? '\"'"},
		{"L-ng5", "C = '/*' .+? '*/'\nID = [a-z]+"},
		{"L-ng6", "C = '<' [a-c]+? '>'"},
		{"L-ng7", "C = 'a' [b-c]+? 'c'"},
		{"L-ng8", "C = '\"' [a-z\"]+? '\"'"},
		{"L-ng9", "C = 'x' ([a-b]|'c')*? 'cc'"},
	})
}

// LexNonGreedyOverlap: a greedy rule shares a prefix with the non-greedy one.
func LexNonGreedyOverlap() []*LexSpec {
	return lexItems([][2]string{
		{"L-ngov", "C = '/*' .*? '*/'\nD = '/' '*'+"},
	}, "overlap")
}

// LexExotic: items whose run-time meaning the documentation does not define
// (escapes above U+10FFFF); used for termination only.
func LexExotic() []*LexSpec {
	return lexItems([][2]string{
		{"L-bigescape", "W = [a-z\\UFFFFFFFF]+\n@frag [ ]+ @discard"},
		{"L-bigescape2", "W = 'a' [\\U80000000]* 'b'\nX = 'x'"},
		{"L-bigliteral", "W = 'a\\UFFFFFFFF'\nX = 'a'"},
	}, "exotic")
}

// LexAccount: extra items for C11 (nullable rules, accumulating fragments).
func LexAccount() []*LexSpec {
	return lexItems([][2]string{
		{"L-null-star", "A = 'a'*\nB = 'b'"},
		{"L-null-opt", "B = 'b'?\nC = 'c'"},
		{"L-accum-eof", "A = 'a'\n@frag 'k' 'l'"},
		{"L-accum-null", "A = 'a'\n@frag 'k'*"},
		// an accepting start state next to non-accepting states (minimisation
		// renumbers the start state's group)
		{"L-null-eq", "A = 'a'*\nEQ = '=='\nNE = '!' '='"},
		{"L-null-mode", "Q = '\"' @push_mode(S)\nID = [a-z]+\n@mode S {\nCS = ([a-z] | '\\\\' [nrt])*\nSE = '\"' @pop_mode\n}"},
	})
}

// LexNumbering: items for C19 (modes, @external, @emit-only tokens, tokens the
// parser never mentions, two files).
func LexNumbering() []*LexSpec {
	out := lexItems([][2]string{
		{"N-plain", "A = 'a'\nB = [b-c]+\nC = 'c' 'd'"},
		{"N-modes", "A = 'a' @push_mode(M)\n@mode M {\nB = 'b'\nC = 'c' @pop_mode\n}\nD = 'd'\n@mode N {\nE = 'e'\n}\nF = 'f'"},
		{"N-external", "A = 'a'\n@external INDENT DEDENT\nB = 'b'\n@mode M {\nC = 'c'\n@external INNER\n}\n@external LAST"},
		{"N-external-first", "@external INDENT DEDENT COMMENT\nNUM = [0-9]+\nNL = '\\n'"},
		{"N-emitonly", "A = 'a'\nHIDDEN = 'zzz'\n@frag 'q' @emit(HIDDEN)\nB = 'b'"},
	})
	two := MustLexSpec("N-twofiles", "A = 'a'\nB = 'b'", "C = 'c'\n@mode M {\nD = 'd'\n}")
	out = append(out, two)
	return out
}

// ParserLanguageAll: the language corpus plus renamed variants (all of them
// when full, else the recursive ones, where the order in which lox visits
// symbols matters most).
func ParserLanguageAll(full bool) []*Grammar {
	base := ParserLanguage()
	var pick []*Grammar
	for _, g := range base {
		if full {
			pick = append(pick, g)
			continue
		}
		switch g.Name {
		case "P-rec-left", "P-rec-right", "P-rec-mid", "P-expr", "P-lalr", "P-palin", "P-paren", "P-null-list", "P-null-dup", "P-nestsugar", "P-listopt":
			pick = append(pick, g)
		}
	}
	return append(base, WithNaming(pick)...)
}

// ParserConflicts: items for C04 whose verdict hangs on look-aheads (grammars
// that are LR(1) but not LALR(1), LALR(1) but not SLR(1), conflicts that only
// show with a look-ahead brought in through a self-loop of the automaton, ...).
// None carries a precedence qualifier.
func ParserConflicts() []*Grammar {
	src := [][3]string{
		{"K-lalr-not-slr", "s = l EQ r | r ; l = STAR r | ID ; r = l", "accept"},
		{"K-lr1-not-lalr", "s = A x D | B y D | A y E | B x E ; x = C ; y = C", "reject"},
		{"K-lr1-not-lalr2", "s = A x D | B y D | A y E | B x E ; x = C z ; y = C z ; z = Z | @empty", "reject"},
		{"K-dangling", "s = IF s | IF s ELSE s | X", "reject"},
		{"K-binary", "e = e PLUS e | N", "reject"},
		{"K-rr", "s = a | b ; a = X ; b = X", "reject"},
		{"K-rr-la", "s = a P | b Q ; a = X ; b = X", "accept"},
		{"K-selfloop-ok", "top = rec ; rec = zed rec C | Y ; zed = Z", "accept"},
		{"K-selfloop-conflict", "top = rec ; rec = zed rec C | zed rec C C | Y ; zed = Z", "reject"},
		{"K-selfloop-conflict2", "top = rec ; rec = zed rec C | zed rec | Y ; zed = Z", "reject"},
		{"K-nullable-la", "s = a b C | a D ; a = A | @empty ; b = B | @empty", "accept"},
		{"K-nullable-conflict", "s = a b C ; a = A | @empty ; b = A | @empty", "reject"},
		{"K-opt-conflict", "s = A? A? B", "reject"},
		{"K-star-star", "s = A* A* B", "reject"},
		{"K-list-trailing", "s = @list(A, C) C?", "accept"},
		{"K-list-trailing2", "s = @list(A, C) C? A?", "reject"},
		{"K-list-ok", "s = @list(A, C) D?", "accept"},
		{"K-err", "s = s x | x ; x = A SEMI | @error SEMI", "accept"},
		{"K-err-conflict", "s = x | @error ; x = A | @error", "reject"},
		{"K-deep-la", "s = a X | b Y ; a = c ; b = c2 ; c = d ; c2 = d2 ; d = Q ; d2 = Q", "accept"},
		{"K-deep-conflict", "s = a X | b X ; a = c ; b = c2 ; c = d ; c2 = d2 ; d = Q ; d2 = Q", "reject"},
		{"K-palin", "s = A s A | B s B | C", "accept"},
		{"K-palin-even", "s = A s A | B s B | @empty", "reject"},
		{"K-cycle", "s = s | A", "reject"},
		{"K-unreachable-conflict", "s = A ; u = u u | B", "accept"},
	}
	var out []*Grammar
	for _, s := range src {
		g := MustGrammar(s[0], s[1])
		g.Expect = s[2]
		out = append(out, g)
	}
	return append(out, WithNaming(out)...)
}
