package corpus

// ParserLanguage lists the grammars without precedence qualifiers and without
// @error used by C01, C03, C04, C10, C16, C18, C19. Each is aimed at a
// mechanism named in the property file.
func ParserLanguage() []*Grammar {
	src := [][3]string{
		// FIRST visits a nullable rule twice (once per sibling)
		{"P-null-dup", "t = q s Z ; q = Q ; s = a X | b Y ; a = n A ; b = n B ; n = N | @empty", "accept"},
		// left-recursive list with empty base after another symbol
		{"P-null-list", "s = c xs ; c = C ; xs = xs X | @empty", "accept"},
		{"P-null-amb", "s = n n C ; n = N | @empty", "reject"},
		{"P-null-nest", "s = a b c D ; a = A | @empty ; b = a B | @empty ; c = b C | @empty", ""},
		{"P-rec-left", "l = l A | A", "accept"},
		{"P-rec-right", "r = A r | A", "accept"},
		{"P-rec-mid", "m = A m B | C", "accept"},
		{"P-expr", "e = e PLUS t | t ; t = t MUL f | f ; f = LP e RP | NUM", "accept"},
		{"P-lalr", "s = l EQ r | r ; l = STAR r | ID ; r = l", "accept"},
		{"P-lr1", "s = A x D | B y D | A y E | B x E ; x = C ; y = C", "reject"},
		{"P-lr2", "s = A? A", "reject"},
		{"P-opt", "s = A? B* C+", "accept"},
		{"P-optrule", "s = e? f* g+ ; e = A B ; f = C ; g = D | E", "accept"},
		{"P-share", "s = A* X A*", "accept"},
		{"P-filter", "s = item*! ; item = A | B", "accept"},
		{"P-filter-tok", "s = X A*! Y", "accept"},
		{"P-list", "s = @list(A,COMMA)", "accept"},
		{"P-listopt", "s = LB @list(e,COMMA)? RB ; e = A | B", "accept"},
		{"P-nestsugar", "s = p* ; p = A q? ; q = B+ C", "accept"},
		{"P-bounds", "s = o A p B q ; o = X | @empty ; p = Y? ; q = Z*", "accept"},
		{"P-allempty", "s = o p q ; o = X | @empty ; p = Y? ; q = Z*", "accept"},
		{"P-dangling", "s = IF s | IF s ELSE s | X", "reject"},
		{"P-epsonly", "s = @empty", "accept"},
		{"P-twonull", "s = a b ; a = A | @empty ; b = B | @empty", "accept"},
		{"P-nullmid", "s = A n B ; n = m m ; m = M | @empty", "reject"},
		{"P-nullchain", "s = a X ; a = b ; b = c ; c = C | @empty", "accept"},
		{"P-palin", "s = A s A | B", "accept"},
	}
	var out []*Grammar
	for _, s := range src {
		g := MustGrammar(s[0], s[1])
		g.Expect = s[2]
		out = append(out, g)
	}
	return out
}
