package corpus

// ParserLanguage lists the grammars without precedence qualifiers and without
// @error used by C01, C03, C04, C10, C16, C18, C19. Each is aimed at a
// mechanism named in the property file.
func ParserLanguage() []*Grammar {
	src := [][3]string{
		// FIRST visits a nullable rule twice (once per sibling)
		{"P-null-dup", "t = q s Z ; q = Q ; s = a X | b Y ; a = n A ; b = n B ; n = N | @empty", "accept"},
		// left-recursive list with empty base after another symbol
		{"P-null-list", "s = c xs ; c = C ; xs = xs X | @empty", "accept"},
		{"P-null-amb", "s = n n C ; n = N | @empty", "reject"},
		{"P-null-nest", "s = a b c D ; a = A | @empty ; b = a B | @empty ; c = b C | @empty", ""},
		{"P-rec-left", "l = l A | A", "accept"},
		{"P-rec-right", "r = A r | A", "accept"},
		{"P-rec-mid", "m = A m B | C", "accept"},
		{"P-expr", "e = e PLUS t | t ; t = t MUL f | f ; f = LP e RP | NUM", "accept"},
		{"P-lalr", "s = l EQ r | r ; l = STAR r | ID ; r = l", "accept"},
		{"P-lr1", "s = A x D | B y D | A y E | B x E ; x = C ; y = C", "reject"},
		{"P-lr2", "s = A? A", "reject"},
		{"P-opt", "s = A? B* C+", "accept"},
		{"P-optrule", "s = e? f* g+ ; e = A B ; f = C ; g = D | E", "accept"},
		{"P-share", "s = A* X A*", "accept"},
		{"P-filter", "s = item*! ; item = A | B", "accept"},
		{"P-filter-tok", "s = X A*! Y", "accept"},
		{"P-list", "s = @list(A,COMMA)", "accept"},
		{"P-listopt", "s = LB @list(e,COMMA)? RB ; e = A | B", "accept"},
		{"P-nestsugar", "s = p* ; p = A q? ; q = B+ C", "accept"},
		{"P-bounds", "s = o A p B q ; o = X | @empty ; p = Y? ; q = Z*", "accept"},
		{"P-allempty", "s = o p q ; o = X | @empty ; p = Y? ; q = Z*", "accept"},
		{"P-dangling", "s = IF s | IF s ELSE s | X", "reject"},
		{"P-epsonly", "s = @empty", "accept"},
		{"P-twonull", "s = a b ; a = A | @empty ; b = B | @empty", "accept"},
		{"P-nullmid", "s = A n B ; n = m m ; m = M | @empty", "reject"},
		{"P-nullchain", "s = a X ; a = b ; b = c ; c = C | @empty", "accept"},
		{"P-palin", "s = A s A | B", "accept"},
	}
	var out []*Grammar
	for _, s := range src {
		g := MustGrammar(s[0], s[1])
		g.Expect = s[2]
		out = append(out, g)
	}
	return out
}

// WithBounds returns copies of the grammars that define _onBounds.
func WithBounds(gs []*Grammar) []*Grammar {
	var out []*Grammar
	for _, g := range gs {
		c := MustGrammar(g.Name+"+B", g.Src)
		c.Expect = g.Expect
		c.OnBounds = true
		out = append(out, c)
	}
	return out
}

// ParserPrecedence: operator tables for C05. Every item has the shape
// e = e OP e @assoc(n) | ... | LP e RP | NUM | ID LP e RP.
func ParserPrecedence() []*Grammar {
	type op struct {
		assoc string
		prec  int
	}
	mk := func(name string, ops ...op) *Grammar {
		src := "e = "
		for i, o := range ops {
			src += "e OP" + string(rune('A'+i)) + " e @" + o.assoc + "(" + itoa(o.prec) + ") | "
		}
		src += "LP e RP | NUM | ID LP e RP"
		return MustGrammar(name, src)
	}
	L := func(n int) op { return op{"left", n} }
	R := func(n int) op { return op{"right", n} }
	return []*Grammar{
		mk("O-L1", L(1)),
		mk("O-R1", R(1)),
		mk("O-L1L1", L(1), L(1)),
		mk("O-R1R1", R(1), R(1)),
		mk("O-L1L2", L(1), L(2)),
		mk("O-L2L1", L(2), L(1)),
		mk("O-L1R2", L(1), R(2)),
		mk("O-R1L2", R(1), L(2)),
		mk("O-R1R2", R(1), R(2)),
		mk("O-L1L1R2R2", L(1), L(1), R(2), R(2)),
		mk("O-L1L2R3", L(1), L(2), R(3)),
		mk("O-L7L3", L(7), L(3)),
		mk("O-L1Lmax", L(1), L(9223372036854775807)),
		MustGrammar("O-unary", "e = e OPA e @left(1) | e OPB e @left(2) | OPA e | NUM"),
	}
}

func itoa(n int) string {
	if n == 0 {
		return "0"
	}
	s := ""
	for n > 0 {
		s = string(rune('0'+n%10)) + s
		n /= 10
	}
	return s
}

// ParserRecovery: @error placements for C09.
func ParserRecovery() []*Grammar {
	src := [][2]string{
		{"E-start", "s = A B | @error"},
		{"E-mid", "s = A @error B"},
		{"E-end", "s = A @error"},
		{"E-list", "p = st* ; st = ID EQ NUM SEMI | @error SEMI"},
		{"E-block", "p = st* ; st = ID EQ NUM SEMI | LB st* RB | @error SEMI | LB @error RB"},
		{"E-merged", "s = TA aa TX | TB aa TY ; aa = @error"},
		{"E-nullpre", "s = o @error A ; o = B | @empty"},
		{"E-two", "s = A @error B @error C"},
		{"E-expr", "e = e PLUS t | t ; t = NUM | LP e RP | LP @error RP"},
		{"E-listsep", "s = @list(x,COMMA) ; x = A | @error"},
		{"E-startonly", "s = @error"},
		{"E-after", "s = A b ; b = B | @error C"},
	}
	var out []*Grammar
	for _, s := range src {
		out = append(out, MustGrammar(s[0], s[1]))
	}
	return out
}
