package corpus

import (
	"fmt"
	"regexp"
	"sort"
	"strings"
)

// Reference LALR(1) construction (mine): canonical LR(1) item sets, merged by
// core. The result is rendered in the vocabulary of lox's --report output so
// that the two can be compared as sets of states, independent of numbering.

const eofSym = -2

type lrItem struct{ prod, dot, la int }

// LALRTable is the canonical rendering of a table: one block per state, the
// lines of a block sorted, state references replaced by the digest of the
// referenced state's items.
type LALRTable struct {
	Blocks    []string // sorted
	Conflicts int      // (state, terminal) pairs with more than one action
	States    int
}

// dispName turns a name of the plain grammar into the name lox prints.
var identRe = regexp.MustCompile(`@?[A-Za-z_][A-Za-z0-9_]*`)

func (g *Grammar) dispName(n string) string {
	n = strings.ReplaceAll(n, ", ", ",")
	return identRe.ReplaceAllStringFunc(n, func(id string) string {
		if id[0] == '@' {
			if id == "@error" {
				return "ERROR"
			}
			return id
		}
		if id[0] >= 'A' && id[0] <= 'Z' {
			return g.TN(id)
		}
		return g.RN(id)
	})
}

// LALR computes the reference table of the grammar (precedence qualifiers are
// ignored: every conflict is reported).
func (g *Grammar) LALR() *LALRTable {
	p := g.Expand()
	nNT := len(p.NT)
	// production 0 is S' = start
	type prod struct {
		lhs int // -1 for S'
		rhs []Sym
	}
	prods := []prod{{lhs: -1, rhs: []Sym{{ID: p.Start}}}}
	byLHS := make([][]int, nNT)
	for _, pr := range p.Prods {
		byLHS[pr.LHS] = append(byLHS[pr.LHS], len(prods))
		prods = append(prods, prod{lhs: pr.LHS, rhs: pr.RHS})
	}
	// nullable and FIRST
	nullable := make([]bool, nNT)
	first := make([]map[int]bool, nNT)
	for i := range first {
		first[i] = map[int]bool{}
	}
	for changed := true; changed; {
		changed = false
		for _, pr := range prods[1:] {
			all := true
			for _, s := range pr.rhs {
				if s.Term {
					if !first[pr.lhs][s.ID] {
						first[pr.lhs][s.ID] = true
						changed = true
					}
					all = false
					break
				}
				for t := range first[s.ID] {
					if !first[pr.lhs][t] {
						first[pr.lhs][t] = true
						changed = true
					}
				}
				if !nullable[s.ID] {
					all = false
					break
				}
			}
			if all && !nullable[pr.lhs] {
				nullable[pr.lhs] = true
				changed = true
			}
		}
	}
	firstOf := func(rest []Sym, la int) []int {
		out := map[int]bool{}
		done := false
		for _, s := range rest {
			if s.Term {
				out[s.ID] = true
				done = true
				break
			}
			for t := range first[s.ID] {
				out[t] = true
			}
			if !nullable[s.ID] {
				done = true
				break
			}
		}
		if !done {
			out[la] = true
		}
		var l []int
		for t := range out {
			l = append(l, t)
		}
		return l
	}
	closure := func(kernel []lrItem) []lrItem {
		seen := map[lrItem]bool{}
		var work []lrItem
		for _, it := range kernel {
			if !seen[it] {
				seen[it] = true
				work = append(work, it)
			}
		}
		for i := 0; i < len(work); i++ {
			it := work[i]
			rhs := prods[it.prod].rhs
			if it.dot >= len(rhs) || rhs[it.dot].Term {
				continue
			}
			for _, la := range firstOf(rhs[it.dot+1:], it.la) {
				for _, q := range byLHS[rhs[it.dot].ID] {
					n := lrItem{q, 0, la}
					if !seen[n] {
						seen[n] = true
						work = append(work, n)
					}
				}
			}
		}
		sort.Slice(work, func(a, b int) bool {
			x, y := work[a], work[b]
			if x.prod != y.prod {
				return x.prod < y.prod
			}
			if x.dot != y.dot {
				return x.dot < y.dot
			}
			return x.la < y.la
		})
		return work
	}
	key := func(items []lrItem) string {
		var sb strings.Builder
		for _, it := range items {
			fmt.Fprintf(&sb, "%d.%d.%d;", it.prod, it.dot, it.la)
		}
		return sb.String()
	}
	coreKey := func(items []lrItem) string {
		seen := map[[2]int]bool{}
		var l [][2]int
		for _, it := range items {
			c := [2]int{it.prod, it.dot}
			if !seen[c] {
				seen[c] = true
				l = append(l, c)
			}
		}
		sort.Slice(l, func(a, b int) bool {
			if l[a][0] != l[b][0] {
				return l[a][0] < l[b][0]
			}
			return l[a][1] < l[b][1]
		})
		return fmt.Sprint(l)
	}
	// canonical LR(1)
	type state struct {
		items []lrItem
		next  map[Sym]int
	}
	var states []*state
	index := map[string]int{}
	add := func(items []lrItem) int {
		k := key(items)
		if i, ok := index[k]; ok {
			return i
		}
		index[k] = len(states)
		states = append(states, &state{items: items, next: map[Sym]int{}})
		return len(states) - 1
	}
	add(closure([]lrItem{{0, 0, eofSym}}))
	for i := 0; i < len(states); i++ {
		st := states[i]
		moves := map[Sym][]lrItem{}
		var order []Sym
		for _, it := range st.items {
			rhs := prods[it.prod].rhs
			if it.dot < len(rhs) {
				s := rhs[it.dot]
				if _, ok := moves[s]; !ok {
					order = append(order, s)
				}
				moves[s] = append(moves[s], lrItem{it.prod, it.dot + 1, it.la})
			}
		}
		for _, s := range order {
			st.next[s] = add(closure(moves[s]))
		}
		if len(states) > 20000 {
			return nil
		}
	}
	// merge by core
	coreOf := map[string]int{}
	var merged []map[lrItem]bool
	mOf := make([]int, len(states))
	for i, st := range states {
		ck := coreKey(st.items)
		m, ok := coreOf[ck]
		if !ok {
			m = len(merged)
			coreOf[ck] = m
			merged = append(merged, map[lrItem]bool{})
		}
		mOf[i] = m
		for _, it := range st.items {
			merged[m][it] = true
		}
	}
	mNext := make([]map[Sym]int, len(merged))
	for i, st := range states {
		m := mOf[i]
		if mNext[m] == nil {
			mNext[m] = map[Sym]int{}
		}
		for s, to := range st.next {
			mNext[m][s] = mOf[to]
		}
	}
	// rendering
	ntName := func(i int) string {
		if i < 0 {
			return "S'"
		}
		return g.dispName(p.NT[i])
	}
	tName := func(t int) string {
		switch t {
		case eofSym:
			return "EOF"
		case ErrSym:
			return "ERROR"
		}
		return g.TN(g.Tokens[t])
	}
	symName := func(s Sym) string {
		if s.Term {
			return tName(s.ID)
		}
		return ntName(s.ID)
	}
	itemText := func(it lrItem) string {
		pr := prods[it.prod]
		var parts []string
		for i, s := range pr.rhs {
			n := symName(s)
			if i == it.dot {
				n = "." + n
			}
			parts = append(parts, n)
		}
		body := strings.Join(parts, " ")
		if it.dot == len(pr.rhs) {
			body += "."
		}
		return fmt.Sprintf("%s = %s, %s", ntName(pr.lhs), body, tName(it.la))
	}
	itemsText := make([]string, len(merged))
	for m, set := range merged {
		var lines []string
		for it := range set {
			lines = append(lines, itemText(it))
		}
		sort.Strings(lines)
		itemsText[m] = strings.Join(lines, "\n")
	}
	out := &LALRTable{States: len(merged)}
	for m, set := range merged {
		acts := map[int]map[string]bool{}
		addAct := func(t int, a string) {
			if acts[t] == nil {
				acts[t] = map[string]bool{}
			}
			acts[t][a] = true
		}
		for it := range set {
			pr := prods[it.prod]
			if it.dot < len(pr.rhs) {
				if s := pr.rhs[it.dot]; s.Term {
					addAct(s.ID, "shift "+Digest(itemsText[mNext[m][s]]))
				}
				continue
			}
			if it.prod == 0 {
				addAct(it.la, "accept")
			} else {
				// lox prints the rule of a reduction; distinct productions of
				// one rule are distinct actions
				addAct(it.la, fmt.Sprintf("reduce %s\x00%d", ntName(pr.lhs), it.prod))
			}
		}
		var lines []string
		for t, as := range acts {
			c := ""
			if len(as) > 1 {
				c = " <== CONFLICT"
				out.Conflicts++
			}
			for a := range as {
				if i := strings.Index(a, "\x00"); i >= 0 {
					a = a[:i]
				}
				lines = append(lines, fmt.Sprintf("on %s %s%s", tName(t), a, c))
			}
		}
		for s, to := range mNext[m] {
			if !s.Term {
				lines = append(lines, fmt.Sprintf("on %s goto %s", ntName(s.ID), Digest(itemsText[to])))
			}
		}
		sort.Strings(lines)
		out.Blocks = append(out.Blocks, itemsText[m]+"\n--\n"+strings.Join(lines, "\n"))
	}
	sort.Strings(out.Blocks)
	return out
}

// Digest is a short stable digest of a text (FNV-1a, 64 bit).
func Digest(s string) string {
	h := uint64(14695981039346656037)
	for i := 0; i < len(s); i++ {
		h ^= uint64(s[i])
		h *= 1099511628211
	}
	return fmt.Sprintf("#%016x", h)
}

// ParseReport reads the "Parser Table" part of lox's --report output into the
// same canonical form.
func ParseReport(report string) (*LALRTable, error) {
	lines := strings.Split(report, "\n")
	i := 0
	for i < len(lines) && strings.TrimSpace(lines[i]) != "Parser Table" {
		i++
	}
	if i == len(lines) {
		return nil, fmt.Errorf("no parser table in the report")
	}
	type blk struct {
		items, acts []string
	}
	var blocks []*blk
	num := map[string]int{}
	var cur *blk
	hdr := regexp.MustCompile(`^I(\d+):$`)
	for i += 2; i < len(lines); i++ {
		l := lines[i]
		if strings.TrimSpace(l) == "" || strings.HasPrefix(l, "Lexer Modes") {
			break
		}
		if m := hdr.FindStringSubmatch(l); m != nil {
			cur = &blk{}
			num["I"+m[1]] = len(blocks)
			blocks = append(blocks, cur)
			continue
		}
		if cur == nil {
			return nil, fmt.Errorf("unexpected report line %q", l)
		}
		switch {
		case strings.HasPrefix(l, "    "):
			cur.acts = append(cur.acts, strings.TrimSpace(l))
		case strings.HasPrefix(l, "  "):
			cur.items = append(cur.items, strings.TrimSpace(l))
		default:
			return nil, fmt.Errorf("unexpected report line %q", l)
		}
	}
	out := &LALRTable{States: len(blocks)}
	texts := make([]string, len(blocks))
	for k, b := range blocks {
		sort.Strings(b.items)
		texts[k] = strings.Join(b.items, "\n")
	}
	ref := regexp.MustCompile(`\bI(\d+)\b`)
	for k, b := range blocks {
		confl := map[string]bool{}
		var acts []string
		for _, a := range b.acts {
			f := strings.Fields(a)
			if len(f) >= 3 && (f[2] == "shift" || f[2] == "goto") {
				a = ref.ReplaceAllStringFunc(a, func(s string) string {
					n, ok := num[s]
					if !ok {
						return s
					}
					return Digest(texts[n])
				})
			}
			if strings.HasSuffix(a, "<== CONFLICT") && len(f) >= 2 {
				confl[f[1]] = true
			}
			acts = append(acts, a)
		}
		out.Conflicts += len(confl)
		sort.Strings(acts)
		out.Blocks = append(out.Blocks, texts[k]+"\n--\n"+strings.Join(acts, "\n"))
	}
	sort.Strings(out.Blocks)
	return out, nil
}

// DiffTables describes the first difference, or "".
func DiffTables(ref, got *LALRTable) string {
	if ref.States != got.States {
		return fmt.Sprintf("reference has %d states, lox %d", ref.States, got.States)
	}
	if ref.Conflicts != got.Conflicts {
		return fmt.Sprintf("reference has %d conflicting (state, terminal) pairs, lox %d", ref.Conflicts, got.Conflicts)
	}
	for i := range ref.Blocks {
		if ref.Blocks[i] != got.Blocks[i] {
			return fmt.Sprintf("state differs:\n-- reference --\n%s\n-- lox --\n%s", ref.Blocks[i], got.Blocks[i])
		}
	}
	return ""
}

// Counts of the reference table used by the solver harness.
func (t *LALRTable) Counts() (items, actions int) {
	for _, b := range t.Blocks {
		parts := strings.SplitN(b, "\n--\n", 2)
		items += strings.Count(parts[0], "\n") + 1
		for _, l := range strings.Split(parts[1], "\n") {
			f := strings.Fields(l)
			if len(f) >= 3 && f[2] != "goto" {
				actions++
			}
		}
	}
	return
}

// LALRFuncName is the name of the harness function of a grammar.
func LALRFuncName(g *Grammar) string {
	var sb strings.Builder
	sb.WriteString("H_LALR_")
	for _, c := range g.Name {
		if c >= 'a' && c <= 'z' || c >= 'A' && c <= 'Z' || c >= '0' && c <= '9' {
			sb.WriteRune(c)
		} else {
			sb.WriteByte('_')
		}
	}
	return sb.String()
}

// LALRHarnessGo renders one harness per grammar: the plain grammar is handed to
// the real lr1 package through its own API and ConstructLALR runs with every
// range over a built-in map in arbitrary order.
func LALRHarnessGo(gs []*Grammar) string {
	var sb strings.Builder
	sb.WriteString(`//vrt:target internal/parsergen/lr1/zz_verif_lalr_h.go

// Code generated by /verif/cmd/genlalr from corpus.ParserConflicts; DO NOT EDIT.

package lr1

import "github.com/dcaiafa/lox/zz_verif/vrt"

// vLALRCheck compares the real table with the counts of the reference LALR(1)
// table (parameters computed at run time by the check).
func vLALRCheck(g *Grammar) {
	vrt.MapOrder(1)
	t := ConstructLALR(g)
	vrt.MapOrder(0)
	items, acts, confl := 0, 0, 0
	for _, st := range t.States {
		items += len(st.Items())
		am := t.Actions(st)
		for _, term := range am.Terminals() {
			n := am.Get(term).Len()
			acts += n
			if n > 1 {
				confl++
			}
		}
	}
	vrt.Observe("states", len(t.States))
	vrt.Observe("items", items)
	vrt.Observe("actions", acts)
	vrt.Observe("conflicts", confl)
	vrt.Assert(t.HasConflicts == (vrt.Param("conflicts", -1) > 0), "conflict-verdict-is-lalr1")
	vrt.Assert(len(t.States) == vrt.Param("states", -1), "lalr1-state-count")
	vrt.Assert(items == vrt.Param("items", -1), "lalr1-item-count")
	vrt.Assert(acts == vrt.Param("actions", -1), "lalr1-action-count")
	vrt.Assert(confl == vrt.Param("conflicts", -1), "lalr1-conflicting-pairs")
	vrt.Reach("built")
}
`)
	for _, g := range gs {
		p := g.Expand()
		fmt.Fprintf(&sb, "\n// %s: %s\nfunc %s() {\n\tg := NewGrammar()\n", g.Name, g.Src, LALRFuncName(g))
		for i, t := range g.Tokens {
			fmt.Fprintf(&sb, "\tt%d := g.AddTerminal(%q)\n", i, g.TN(t))
		}
		usedT := map[int]bool{}
		usedR := map[int]bool{p.Start: true}
		for _, pr := range p.Prods {
			usedR[pr.LHS] = true
			for _, s := range pr.RHS {
				if s.Term {
					usedT[s.ID] = true
				} else {
					usedR[s.ID] = true
				}
			}
		}
		for i := range g.Tokens {
			if !usedT[i] {
				fmt.Fprintf(&sb, "\t_ = t%d\n", i)
			}
		}
		for i, n := range p.NT {
			fmt.Fprintf(&sb, "\tr%d := g.AddRule(%q)\n", i, g.dispName(n))
			if !usedR[i] {
				fmt.Fprintf(&sb, "\t_ = r%d\n", i)
			}
		}
		fmt.Fprintf(&sb, "\tg.SetStart(r%d)\n", p.Start)
		for _, pr := range p.Prods {
			fmt.Fprintf(&sb, "\tg.AddProd(r%d", pr.LHS)
			for _, s := range pr.RHS {
				switch {
				case s.Term && s.ID == ErrSym:
					sb.WriteString(", g.ErrorTerminal")
				case s.Term:
					fmt.Fprintf(&sb, ", t%d", s.ID)
				default:
					fmt.Fprintf(&sb, ", r%d", s.ID)
				}
			}
			sb.WriteString(")\n")
		}
		sb.WriteString("\tvLALRCheck(g)\n}\n")
	}
	return sb.String()
}

// DiffItemSets compares the item sets only (for grammars whose qualifiers may
// remove actions).
func DiffItemSets(ref, got *LALRTable) string {
	if ref.States != got.States {
		return fmt.Sprintf("reference has %d states, lox %d", ref.States, got.States)
	}
	set := func(t *LALRTable) []string {
		var l []string
		for _, b := range t.Blocks {
			l = append(l, strings.SplitN(b, "\n--\n", 2)[0])
		}
		sort.Strings(l)
		return l
	}
	a, b := set(ref), set(got)
	for i := range a {
		if a[i] != b[i] {
			return fmt.Sprintf("item set differs:\n-- reference --\n%s\n-- lox --\n%s", a[i], b[i])
		}
	}
	return ""
}
