// Package checks holds the per-property checks built on symgo.
package checks

import (
	"bytes"
	"encoding/json"
	"fmt"
	"os"
	"os/exec"
	"path/filepath"
	"regexp"
	"runtime"
	"sort"
	"strconv"
	"strings"
	"sync"
	"time"

	"verif/symgo"

	"golang.org/x/tools/go/ssa"
)

// RepoDir is the tree under test: always /repo for the registered commands.
// VERIF_REPO points it at a scratch worktree (used only when trying seeded
// changes in parallel; evidence of such runs goes wherever VERIF_EVIDENCE says).
var RepoDir = func() string {
	if v := os.Getenv("VERIF_REPO"); v != "" {
		return v
	}
	return "/repo"
}()

const (
	VerifDir  = "/verif"
	RepoMod   = "github.com/dcaiafa/lox"
	VrtImport = RepoMod + "/zz_verif/vrt"
)

// Ctx is one check invocation.
type Ctx struct {
	Prop     string
	Tier     string
	Seed     int
	Workers  int
	Scratch  string // removed at exit
	Start    time.Time
	Out      *bytes.Buffer
	repoProg *symgo.Program
	known    []KnownFinding
}

func (c *Ctx) Thorough() bool { return c.Tier == "thorough" }

func (c *Ctx) Logf(format string, args ...any) {
	fmt.Printf(format+"\n", args...)
}

func NewCtx(prop, tier string) *Ctx {
	seed, _ := strconv.Atoi(os.Getenv("VERIF_SEED"))
	w := runtime.NumCPU()
	if v, err := strconv.Atoi(os.Getenv("VERIF_WORKERS")); err == nil && v > 0 {
		w = v
	}
	dir, err := os.MkdirTemp("", "vcheck-"+prop+"-")
	if err != nil {
		panic(err)
	}
	c := &Ctx{Prop: prop, Tier: tier, Seed: seed, Workers: w, Scratch: dir, Start: time.Now()}
	// replay files of earlier runs of this property are stale
	old, _ := filepath.Glob(filepath.Join(evidenceDir(), "replays", prop+"-*"))
	for _, f := range old {
		os.Remove(f)
	}
	c.known = loadKnown()
	return c
}

// NewCtxNoClean is NewCtx without removing earlier replay files.
func NewCtxNoClean(prop, tier string) *Ctx {
	dir, err := os.MkdirTemp("", "vcheck-"+prop+"-")
	if err != nil {
		panic(err)
	}
	return &Ctx{Prop: prop, Tier: tier, Workers: runtime.NumCPU(), Scratch: dir, Start: time.Now(), known: loadKnown()}
}

func (c *Ctx) Cleanup() {
	if os.Getenv("VERIF_KEEP") != "" {
		fmt.Println("scratch kept:", c.Scratch)
		return
	}
	os.RemoveAll(c.Scratch)
}

func goEnv() []string {
	return append(os.Environ(), "GOFLAGS=-mod=mod", "GOPROXY=off", "GOSUMDB=off", "GOTOOLCHAIN=local", "CGO_ENABLED=0")
}

// ---- repo overlay harnesses ----

var targetRe = regexp.MustCompile(`(?m)^//vrt:target (\S+)`)

// repoOverlay maps virtual paths under /repo to harness files in /verif.
func repoOverlay() (virtual map[string]string, err error) {
	virtual = map[string]string{}
	files, _ := filepath.Glob(filepath.Join(VerifDir, "harness/repo/*.go"))
	for _, f := range files {
		data, err := os.ReadFile(f)
		if err != nil {
			return nil, err
		}
		m := targetRe.FindSubmatch(data)
		if m == nil {
			return nil, fmt.Errorf("%s: no //vrt:target line", f)
		}
		virtual[filepath.Join(RepoDir, string(m[1]))] = f
	}
	return virtual, nil
}

// LoadRepo loads /repo's current tree with every repo harness overlaid.
func (c *Ctx) LoadRepo() (*symgo.Program, error) {
	if c.repoProg != nil {
		return c.repoProg, nil
	}
	virt, err := repoOverlay()
	if err != nil {
		return nil, err
	}
	overlay := map[string][]byte{}
	pkgDirs := map[string]bool{}
	for v, real := range virt {
		data, _ := os.ReadFile(real)
		overlay[v] = data
		rel, _ := filepath.Rel(RepoDir, filepath.Dir(v))
		pkgDirs["./"+rel] = true
	}
	overlay[filepath.Join(RepoDir, "zz_verif/vrt/vrt.go")] = []byte(symgo.VrtSource)
	pkgDirs["./zz_verif/vrt"] = true
	var pats []string
	for d := range pkgDirs {
		pats = append(pats, d)
	}
	sort.Strings(pats)
	t0 := time.Now()
	prog, _, err := symgo.Load(symgo.LoadConfig{Dir: RepoDir, Patterns: pats, Overlay: overlay})
	if err != nil {
		return nil, err
	}
	c.Logf("loaded %d packages from %s in %.1fs", len(prog.Pkgs), RepoDir, time.Since(t0).Seconds())
	c.repoProg = prog
	return prog, nil
}

// Harness names one entry function and its parameters.
type Harness struct {
	Name       string // e.g. "rang3.Flatten[k=2]"
	Pkg        string // import path (relative to the repo module when it starts with "internal/")
	Func       string
	Params     map[string]int
	Reach      []string // ids that must be reached on some feasible path
	MaxSteps   int64
	MaxPaths   int
	PanicOK    bool
	Bounds     string // human description of the bounds
	Item       string // corpus item (generated programs)
	TimeoutMs  int
	MapOrder   bool
	UnwindCex  bool
	Workers    int
	Quiet      bool
	NoModel    map[string]bool
	Race       bool // native replay under go test -race
	CollectAll bool
}

// Result of one harness.
type Result struct {
	H         Harness
	Rep       *symgo.Report
	Missing   []string // reach ids never hit
	BudgetCut string   // non-empty: not (completely) run because the time budget was used up
	Replays   []ReplayResult
}

type ReplayResult struct {
	Cex      symgo.Cex
	File     string
	Observed []string
	Verdict  string // native verdict
	Confirms bool
	Known    string // known-finding id when classified
}

func pkgPath(p string) string {
	if strings.HasPrefix(p, "internal/") || strings.HasPrefix(p, "zz_verif/") || strings.HasPrefix(p, "cmd/") {
		return RepoMod + "/" + p
	}
	return p
}

// RunHarness explores one harness.
func (c *Ctx) RunHarness(prog *symgo.Program, h Harness) (*Result, error) {
	sp := prog.Pkgs[pkgPath(h.Pkg)]
	if sp == nil {
		return nil, fmt.Errorf("package %s not loaded", h.Pkg)
	}
	fn := sp.Func(h.Func)
	if fn == nil {
		return nil, fmt.Errorf("harness %s.%s not found", h.Pkg, h.Func)
	}
	return c.runEntry(prog, h, fn), nil
}

// budget is the wall-clock budget of the solver-decided part of a check
// (VERIF_BUDGET_S; default: 90 minutes for quick, 45 minutes for thorough). Harnesses
// run in order of increasing bounds; one that has not started when the budget is
// used up is skipped, one that is running is stopped. Either is listed in the
// evidence as outside this run's claim - it is never counted as held.
func (c *Ctx) budget() time.Duration {
	if v, err := strconv.Atoi(os.Getenv("VERIF_BUDGET_S")); err == nil && v > 0 {
		return time.Duration(v) * time.Second
	}
	if c.Thorough() {
		return 45 * time.Minute
	}
	// quick: every bound completes within a few minutes on the unchanged tree;
	// the budget only bounds a run on a tree whose code has become expensive to
	// explore, and being cut makes a quick run inconclusive (exit 2)
	return 90 * time.Minute
}

func (c *Ctx) runEntry(prog *symgo.Program, h Harness, fn *ssa.Function) *Result {
	if b := c.budget(); b > 0 && time.Since(c.Start) > b {
		rep := &symgo.Report{Name: h.Name, Paths: map[string]int{}, Reached: map[string]int{}, Functions: map[string]bool{}, Stubs: map[string]int{}}
		return &Result{H: h, Rep: rep, BudgetCut: "not started"}
	}
	workers := c.Workers
	if h.Workers > 0 {
		workers = h.Workers
	}
	cfg := symgo.Config{
		Name: h.Name, Entry: fn, Workers: workers, Solver: os.Getenv("VERIF_SOLVER"),
		MaxSteps: h.MaxSteps, MaxPaths: h.MaxPaths, PanicOK: h.PanicOK, TimeoutMs: h.TimeoutMs, UnwindCex: h.UnwindCex, CollectAll: h.CollectAll,
		Setup: func(in *symgo.Interp) { in.Params = h.Params; in.NoModel = h.NoModel },
	}
	if c.Thorough() {
		cfg.CrossCheck = "z3-new"
	}
	if b := c.budget(); b > 0 {
		cfg.Deadline = c.Start.Add(b)
	}
	rep := symgo.Explore(prog, cfg)
	res := &Result{H: h, Rep: rep}
	if rep.DeadlineHit {
		res.BudgetCut = fmt.Sprintf("stopped after %d paths", rep.Total)
		return res // counterexamples found so far are still handled; no vacuity verdict on a partial run
	}
	if c.Thorough() && rep.UnknownN > 0 && len(rep.Cex) == 0 && !onlyUnknownProblems(rep) {
		// fall through: other problems make the run inconclusive as usual
	} else if c.Thorough() && rep.UnknownN > 0 && len(rep.Cex) == 0 {
		// thorough tier: a query every solver gave up on leaves the harness
		// undecided; it is listed as not completed (a reduced bound), not as held
		res.BudgetCut = fmt.Sprintf("undecided: the solvers gave up on %d of %d queries", rep.UnknownN, rep.Queries)
		res.Missing = nil
		return res
	}
	for _, id := range h.Reach {
		if rep.Reached[id] == 0 {
			res.Missing = append(res.Missing, id)
		}
	}
	if !h.Quiet || len(rep.Cex) > 0 || rep.Inconclusive() {
		c.Logf("%s", rep.Summary())
	}
	return res
}

// onlyUnknownProblems: the report is inconclusive for no other reason than
// solver unknowns.
func onlyUnknownProblems(rep *symgo.Report) bool {
	return rep.Paths["unsupported"] == 0 && rep.Paths["internal"] == 0 && (rep.Paths["unwind"] == 0 || rep.UnwindCex) &&
		!rep.Truncated && len(rep.SolverErrs) == 0 && len(rep.CrossDiffs) == 0
}

// ---- native replay for repo harnesses ----

// ReplayRepo runs the harness natively on the counterexample inputs, using go
// test with an overlay so that /repo is not touched.
func (c *Ctx) ReplayRepo(h Harness, cex symgo.Cex) (ReplayResult, error) {
	rr := ReplayResult{Cex: cex}
	dir, err := os.MkdirTemp(c.Scratch, "replay-")
	if err != nil {
		return rr, err
	}
	virt, err := repoOverlay()
	if err != nil {
		return rr, err
	}
	repl := map[string]string{}
	for v, real := range virt {
		repl[v] = real
	}
	vrtFile := filepath.Join(dir, "vrt.go")
	os.WriteFile(vrtFile, []byte(symgo.VrtSource), 0644)
	repl[filepath.Join(RepoDir, "zz_verif/vrt/vrt.go")] = vrtFile
	// the test driver
	pkgName := ""
	for v, real := range virt {
		if filepath.Dir(v) == filepath.Join(RepoDir, h.Pkg) {
			data, _ := os.ReadFile(real)
			if m := regexp.MustCompile(`(?m)^package (\w+)`).FindSubmatch(data); m != nil {
				pkgName = string(m[1])
			}
		}
	}
	if pkgName == "" {
		return rr, fmt.Errorf("no harness file for package %s", h.Pkg)
	}
	test := fmt.Sprintf(`package %s

import (
	"fmt"
	"os"
	"testing"

	"%s"
)

func TestVerifReplay(t *testing.T) {
	v := vrt.Run(%s)
	// map-order witnesses cannot be forced natively: retry until Go picks a
	// differing order
	for i := 0; i < 64 && v == "ok" && os.Getenv("VRT_REPEAT") != ""; i++ {
		v = vrt.Run(%s)
	}
	fmt.Println("VERDICT:", v)
	for _, l := range vrt.Log {
		fmt.Println("OBSERVE:", l)
	}
}
`, pkgName, VrtImport, h.Func, h.Func)
	testFile := filepath.Join(dir, "replay_test.go")
	os.WriteFile(testFile, []byte(test), 0644)
	repl[filepath.Join(RepoDir, h.Pkg, "zz_verif_replay_test.go")] = testFile
	ov, _ := json.Marshal(map[string]any{"Replace": repl})
	ovFile := filepath.Join(dir, "overlay.json")
	os.WriteFile(ovFile, ov, 0644)
	rp := map[string]any{"inputs": cex.Inputs, "params": h.Params, "harness": h.Name, "assert": cex.ID, "pkg": h.Pkg, "func": h.Func}
	data, _ := json.MarshalIndent(rp, "", " ")
	rpFile := filepath.Join(dir, "replay.json")
	os.WriteFile(rpFile, data, 0644)
	rr.File = rpFile
	// build the test binary with the overlay, then run it (works for packages
	// that exist only in the overlay as well)
	bin := filepath.Join(dir, "replay.test")
	build := exec.Command("go", "test", "-c", "-vet=off", "-o", bin, "-overlay", ovFile, "./"+h.Pkg)
	build.Dir = RepoDir
	build.Env = goEnv()
	if bout, err := runTimeout(build, 5*time.Minute); err != nil {
		rr.Verdict = "norun: build: " + firstN(string(bout), 600)
		return rr, nil
	}
	cmd := exec.Command(bin, "-test.v", "-test.run", "^TestVerifReplay$", "-test.timeout", "120s")
	cmd.Dir = c.Scratch
	cmd.Env = append(goEnv(), "VRT_REPLAY="+rpFile)
	if h.MapOrder {
		cmd.Env = append(cmd.Env, "VRT_REPEAT=1")
	}
	out, _ := runTimeout(cmd, 5*time.Minute)
	m := regexp.MustCompile(`(?m)^VERDICT: (.*)$`).FindSubmatch(out)
	if m == nil {
		rr.Verdict = "norun: " + firstN(string(out), 600)
		return rr, nil
	}
	rr.Verdict = string(m[1])
	rr.Observed = observedLines(out)
	switch {
	case cex.ID == "panic":
		rr.Confirms = strings.HasPrefix(rr.Verdict, "panic:")
	default:
		rr.Confirms = strings.HasPrefix(rr.Verdict, "fail:") && strings.Contains(rr.Verdict, cex.ID)
		if strings.HasPrefix(rr.Verdict, "panic:") {
			rr.Confirms = true
		}
	}
	return rr, nil
}

func observedLines(out []byte) []string {
	var obs []string
	for _, m := range regexp.MustCompile(`(?m)^OBSERVE: (.*)$`).FindAllSubmatch(out, -1) {
		obs = append(obs, string(m[1]))
	}
	return obs
}

func runTimeout(cmd *exec.Cmd, d time.Duration) ([]byte, error) {
	var buf bytes.Buffer
	cmd.Stdout = &buf
	cmd.Stderr = &buf
	if err := cmd.Start(); err != nil {
		return nil, err
	}
	done := make(chan error, 1)
	go func() { done <- cmd.Wait() }()
	select {
	case err := <-done:
		return buf.Bytes(), err
	case <-time.After(d):
		cmd.Process.Kill()
		<-done
		return buf.Bytes(), fmt.Errorf("timeout after %v", d)
	}
}

func firstN(s string, n int) string {
	if len(s) > n {
		return s[:n] + "..."
	}
	return s
}

// ValidateSamples replays witness inputs of completed ("ok") paths natively
// and demands the same verdict and the same Observe log: the translator
// validation of DESIGN 2.6. items maps harness names to generated items (nil
// for repo harnesses).
func (c *Ctx) ValidateSamples(o *Outcome, items map[string]*GenItem, max int) {
	type pick struct {
		r *Result
		s symgo.PathSample
	}
	var picks []pick
	// only the results added since the last call (a check may run several
	// families, each with its own items)
	fresh := o.Results[o.validated:]
	o.validated = len(o.Results)
	step := 1
	if len(fresh) > max && max > 0 {
		step = len(fresh) / max
	}
	for i := 0; i < len(fresh) && len(picks) < max; i += step {
		r := fresh[i]
		// prefer the sample with most decisions
		best := -1
		for k, s := range r.Rep.Samples {
			if s.Status == "ok" && (best < 0 || s.Decisions > r.Rep.Samples[best].Decisions) {
				best = k
			}
		}
		if best >= 0 {
			picks = append(picks, pick{r, r.Rep.Samples[best]})
		}
	}
	var mu sync.Mutex
	var wg sync.WaitGroup
	sem := make(chan bool, 8)
	for _, p := range picks {
		wg.Add(1)
		sem <- true
		go func(p pick) {
			defer wg.Done()
			defer func() { <-sem }()
			cex := symgo.Cex{ID: "sample", Inputs: p.s.Inputs}
			var rr ReplayResult
			var err error
			if it := items[p.r.H.Name]; it != nil {
				rr, err = c.ReplayGen(it, p.r.H, cex)
			} else {
				rr, err = c.ReplayRepo(p.r.H, cex)
			}
			mu.Lock()
			defer mu.Unlock()
			if err != nil {
				o.Broken = append(o.Broken, fmt.Sprintf("%s: sample replay failed: %v", p.r.H.Name, err))
				return
			}
			if rr.Verdict != "ok" {
				o.Broken = append(o.Broken, fmt.Sprintf("%s: a path the engine completed without violation gives %q natively on inputs %v: engine discrepancy", p.r.H.Name, rr.Verdict, p.s.Inputs))
				return
			}
			if !sameLog(rr.Observed, p.s.Observed) {
				o.Broken = append(o.Broken, fmt.Sprintf("%s: Observe logs differ between engine and native run on inputs %v: %v vs %v", p.r.H.Name, p.s.Inputs, p.s.Observed, rr.Observed))
				return
			}
			o.Traces++
		}(p)
	}
	wg.Wait()
}

func sameLog(a, b []string) bool {
	if len(a) != len(b) {
		return false
	}
	for i := range a {
		if a[i] != b[i] {
			return false
		}
	}
	return true
}

// ---- known findings ----

type KnownFinding struct {
	Property string `json:"property"`
	ID       string `json:"id"`
	Status   string `json:"status"` // known | fixed
	Match    string `json:"match"`  // harness-specific key that identifies the failing case
	What     string `json:"what"`
	Commit   string `json:"commit,omitempty"`
}

func loadKnown() []KnownFinding {
	var k struct {
		Findings []KnownFinding `json:"findings"`
	}
	data, err := os.ReadFile(filepath.Join(VerifDir, "known_findings.json"))
	if err != nil {
		return nil
	}
	if err := json.Unmarshal(data, &k); err != nil {
		fmt.Fprintln(os.Stderr, "known_findings.json:", err)
		return nil
	}
	return k.Findings
}

// KnownFor returns the known (not fixed) finding whose match key equals key.
func (c *Ctx) KnownFor(prop, key string) *KnownFinding {
	for i := range c.known {
		k := &c.known[i]
		if k.Property != prop || k.Status != "known" {
			continue
		}
		if k.Match == key {
			return k
		}
		// "*:<assert id>" matches the assertion on any item: used when the
		// assertion id itself is a classifier (the harness raises it only when
		// the implementation agrees with the defect model on the witness)
		if strings.HasPrefix(k.Match, "*:") && strings.HasSuffix(key, k.Match[1:]) {
			return k
		}
	}
	return nil
}

// ---- evidence ----

type Evidence struct {
	PropertyID  string         `json:"property_id"`
	Tier        string         `json:"tier"`
	Seed        int            `json:"seed"`
	Level       string         `json:"level"`
	Coverage    map[string]any `json:"coverage"`
	Assumptions []string       `json:"assumptions"`
	WallS       float64        `json:"wall_s"`
	Violations  int            `json:"violations"`
}

// Outcome accumulates what a check did.
type Outcome struct {
	Results      []*Result
	validated    int      // results already offered to ValidateSamples
	Violations   []string // VIOLATION lines
	Known        []string // KNOWN-FINDING lines
	Inconclusive []string
	Broken       []string // vacuity / engine discrepancies
	Assumptions  []string
	Outside      []string
	Extra        map[string]any
	Traces       int // native replays / validations that matched
}

func (o *Outcome) Add(r *Result) { o.Results = append(o.Results, r) }

// Finish writes the evidence file, prints the verdict lines and returns the
// exit code.
func (c *Ctx) Finish(o *Outcome) int {
	ev := Evidence{PropertyID: c.Prop, Tier: c.Tier, Seed: c.Seed, Level: "model_checking",
		Coverage: map[string]any{}, WallS: time.Since(c.Start).Seconds()}
	states, trans, queries, unknown := 0, 0, 0, 0
	var solverS float64
	fns := map[string]bool{}
	stubs := map[string]int{}
	var samples []any
	var harnesses []any
	var cut []string
	for _, r := range o.Results {
		states += r.Rep.Total
		trans += r.Rep.Decisions
		queries += r.Rep.Queries
		unknown += r.Rep.UnknownN
		solverS += r.Rep.SolverTime.Seconds()
		for f := range r.Rep.Functions {
			fns[f] = true
		}
		for s, n := range r.Rep.Stubs {
			stubs[s] += n
		}
		hs := map[string]any{"harness": r.H.Name, "paths": r.Rep.Total, "by_status": r.Rep.Paths,
			"decisions": r.Rep.Decisions, "queries": r.Rep.Queries, "sat": r.Rep.SatN, "unsat": r.Rep.UnsatN,
			"unknown": r.Rep.UnknownN, "solver_s": round2(r.Rep.SolverTime.Seconds()), "wall_s": round2(r.Rep.Wall.Seconds()),
			"bounds": r.H.Bounds, "params": r.H.Params, "reached": r.Rep.Reached, "counterexamples": len(r.Rep.Cex)}
		if r.H.Item != "" {
			hs["item"] = r.H.Item
		}
		if len(r.Rep.Problems) > 0 {
			hs["problems"] = r.Rep.Problems
		}
		if r.Rep.CrossChecks > 0 {
			hs["cross_checked_queries"] = r.Rep.CrossChecks
		}
		if r.BudgetCut != "" {
			hs["time_budget"] = r.BudgetCut + " - outside this run's claim"
			cut = append(cut, r.H.Name+" ("+r.BudgetCut+")")
		}
		harnesses = append(harnesses, hs)
		for i, s := range r.Rep.Samples {
			if i < 2 && len(samples) < 24 {
				samples = append(samples, map[string]any{"harness": r.H.Name, "path_status": s.Status,
					"decisions": s.Decisions, "witness_inputs": s.Inputs, "observed": s.Observed})
			}
		}
		if r.Rep.Inconclusive() && !strings.HasPrefix(r.BudgetCut, "undecided") {
			o.Inconclusive = append(o.Inconclusive, fmt.Sprintf("%s: %s", r.H.Name, strings.Join(r.Rep.Problems, "; ")))
		}
		if r.BudgetCut != "" && !c.Thorough() {
			o.Inconclusive = append(o.Inconclusive, fmt.Sprintf("%s: not completed within the quick tier's time budget (%s)", r.H.Name, r.BudgetCut))
		}
		for _, m := range r.Missing {
			o.Broken = append(o.Broken, fmt.Sprintf("%s: reachability witness %q never reached (vacuous harness?)", r.H.Name, m))
		}
	}
	if len(samples) == 0 {
		samples = append(samples, "no completed path")
	}
	fnList := make([]string, 0, len(fns))
	for f := range fns {
		if !strings.Contains(f, "zz_verif") && !strings.HasPrefix(f, "vrt.") {
			fnList = append(fnList, f)
		}
	}
	sort.Strings(fnList)
	if states < 1 {
		states = 1
	}
	if trans < 1 {
		trans = 1
	}
	ev.Coverage["states"] = states
	ev.Coverage["transitions"] = trans
	ev.Coverage["traces_validated_against_impl"] = o.Traces
	ev.Coverage["samples"] = samples
	ev.Coverage["evaluations"] = states
	ev.Coverage["distinct_nontrivial"] = states
	ev.Coverage["rule"] = "states = completed symbolic paths (each a distinct decision vector); transitions = solver-decided branch points; every path is decided for all input values satisfying its path condition"
	ev.Coverage["functions_encoded"] = fnList
	ev.Coverage["functions_encoded_count"] = len(fnList)
	ev.Coverage["queries"] = queries
	ev.Coverage["solver_unknown"] = unknown
	ev.Coverage["solver_s"] = round2(solverS)
	ev.Coverage["harnesses"] = harnesses
	ev.Coverage["stubs_used"] = stubs
	ev.Coverage["outside_claim"] = o.Outside
	ev.Coverage["known_findings_reported"] = o.Known
	ev.Coverage["violations"] = o.Violations
	ev.Coverage["inconclusive"] = o.Inconclusive
	ev.Coverage["exhaustive"] = len(o.Inconclusive) == 0 && len(cut) == 0
	if b := c.budget(); b > 0 {
		ev.Coverage["time_budget_s"] = b.Seconds()
		ev.Coverage["harnesses_not_completed_within_time_budget"] = cut
	}
	ev.Coverage["explanation"] = "bounded symbolic execution of the real code (Go SSA of /repo's working tree) with z3 deciding every branch and assertion; exhaustive within the stated bounds only"
	for k, v := range o.Extra {
		ev.Coverage[k] = v
	}
	ev.Assumptions = o.Assumptions
	ev.Violations = len(o.Violations)
	os.MkdirAll(evidenceDir(), 0755)
	data, _ := json.MarshalIndent(ev, "", " ")
	os.WriteFile(filepath.Join(evidenceDir(), c.Prop+".json"), data, 0644)

	seenK := map[string]bool{}
	for _, k := range o.Known {
		if !seenK[k] {
			seenK[k] = true
			fmt.Println(k)
		}
	}
	for _, v := range o.Violations {
		fmt.Println(v)
	}
	for _, b := range o.Broken {
		fmt.Println("BROKEN:", b)
	}
	for _, i := range o.Inconclusive {
		fmt.Println("INCONCLUSIVE:", i)
	}
	if len(cut) > 0 {
		fmt.Printf("TIME-BUDGET: %d harnesses not completed within %.0f s (outside this run's claim; listed in the evidence): %s\n", len(cut), c.budget().Seconds(), firstN(strings.Join(cut, ", "), 600))
	}
	fmt.Printf("%s %s: paths=%d decisions=%d queries=%d solver=%.1fs wall=%.1fs violations=%d known=%d inconclusive=%d\n",
		c.Prop, c.Tier, states, trans, queries, solverS, time.Since(c.Start).Seconds(), len(o.Violations), len(o.Known), len(o.Inconclusive))
	switch {
	case len(o.Violations) > 0:
		return 1
	case len(o.Broken) > 0:
		return 3
	case len(o.Inconclusive) > 0:
		return 2
	}
	return 0
}

func round2(f float64) float64 { return float64(int(f*100+0.5)) / 100 }

// SaveReplay copies a replay file to /verif/evidence/replays and returns the
// stable path.
func (c *Ctx) SaveReplay(name string, content any) string {
	dir := filepath.Join(evidenceDir(), "replays")
	os.MkdirAll(dir, 0755)
	safe := regexp.MustCompile(`[^A-Za-z0-9_.-]+`).ReplaceAllString(name, "_")
	p := filepath.Join(dir, c.Prop+"-"+safe+".json")
	data, _ := json.MarshalIndent(content, "", " ")
	os.WriteFile(p, data, 0644)
	return p
}

// HandleRepoCex replays counterexamples of a repo harness and files them as
// violations, known findings or engine discrepancies.
func (c *Ctx) HandleRepoCex(o *Outcome, r *Result, keyOf func(symgo.Cex) string) {
	seen := map[string]bool{}
	for _, cex := range r.Rep.Cex {
		k := cex.ID
		if keyOf != nil {
			k = keyOf(cex)
		}
		if seen[k] {
			continue
		}
		seen[k] = true
		rr, err := c.ReplayRepo(r.H, cex)
		if err != nil {
			o.Broken = append(o.Broken, fmt.Sprintf("%s: replay failed: %v", r.H.Name, err))
			continue
		}
		r.Replays = append(r.Replays, rr)
		if !rr.Confirms {
			o.Broken = append(o.Broken, fmt.Sprintf("%s: counterexample %s does not reproduce natively (verdict %q): engine discrepancy", r.H.Name, cex.ID, rr.Verdict))
			continue
		}
		o.Traces++
		path := c.SaveReplay(r.H.Name+"-"+cex.ID, map[string]any{"harness": r.H.Name, "pkg": r.H.Pkg, "func": r.H.Func,
			"params": r.H.Params, "inputs": cex.Inputs, "assert": cex.ID, "msg": cex.Msg, "native_verdict": rr.Verdict, "stack": cex.Stack})
		if kf := c.KnownFor(c.Prop, r.H.Name+":"+k); kf != nil {
			o.Known = append(o.Known, fmt.Sprintf("KNOWN-FINDING: property=%s %s (%s)", c.Prop, kf.What, kf.ID))
			continue
		}
		o.Violations = append(o.Violations, fmt.Sprintf("VIOLATION property=%s replay=%s", c.Prop, path))
		c.Logf("  violated: %s %s — %s; native verdict: %s", r.H.Name, cex.ID, cex.Msg, rr.Verdict)
	}
}

func jsonIndent(v any) ([]byte, error) { return json.MarshalIndent(v, "", " ") }

// evidenceDir is /verif/evidence unless VERIF_EVIDENCE redirects it (used for
// calibration runs in the background, whose files must not replace the
// evidence of the registered commands).
func evidenceDir() string {
	if d := os.Getenv("VERIF_EVIDENCE"); d != "" {
		return d
	}
	if os.Getenv("VERIF_REPO") != "" {
		// never let a run against a scratch tree overwrite /repo's evidence
		return filepath.Join(os.TempDir(), "verif-scratch-evidence")
	}
	return filepath.Join(VerifDir, "evidence")
}
