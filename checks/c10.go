package checks

import (
	"fmt"
	"sort"
	"strings"

	"verif/corpus"
	"verif/symgo"
)

// C10: emitted tables are faithful to the automata.
func C10(c *Ctx) int {
	o := &Outcome{}
	// K TableRoundTrip on the real table[E] code
	prog, err := c.LoadRepo()
	if err != nil {
		fmt.Println("load:", err)
		return 2
	}
	type tp struct{ rows, cells, gaps int }
	shapes := []tp{{1, 1, 0}, {2, 2, 2}, {3, 1, 4}}
	if c.Thorough() {
		shapes = append(shapes, tp{3, 2, 0}, tp{3, 2, 5}, tp{2, 3, 1}, tp{4, 1, 10})
	}
	for _, fn := range []string{"H_TableInt32", "H_TableUint32"} {
		for _, sh := range shapes {
			h := Harness{Name: fmt.Sprintf("codegen.%s[rows=%d,cells=%d,gaps=%d]", fn[2:], sh.rows, sh.cells, sh.gaps), Pkg: "internal/codegen", Func: fn,
				Params: map[string]int{"rows": sh.rows, "cells": sh.cells, "gaps": sh.gaps}, Quiet: true,
				Bounds: fmt.Sprintf("%d rows of up to %d arbitrary 32-bit cells, hole pattern %b", sh.rows, sh.cells, sh.gaps)}
			if sh.rows >= 3 {
				h.Reach = []string{"shared-row", "distinct-rows"}
			}
			if sh.gaps != 0 {
				h.Reach = append(h.Reach, "hole")
			}
			r, err := c.RunHarness(prog, h)
			if err != nil {
				o.Broken = append(o.Broken, err.Error())
				continue
			}
			o.Add(r)
			c.HandleRepoCex(o, r, nil)
		}
	}
	c.ValidateSamples(o, nil, 4)

	// K FindUnit / PushRuneUnit on code rendered from the current templates
	var gs []*corpus.Grammar
	for _, g := range corpus.ParserLanguage() {
		if g.Name == "P-expr" {
			gs = append(gs, g)
		}
	}
	specs := corpus.LexGreedy()[:1]
	items, err := c.Generate(gs, specs)
	if err != nil {
		fmt.Println("generate:", err)
		return 2
	}
	gprog, err := c.LoadGen()
	if err != nil {
		fmt.Println("load generated:", err)
		return 2
	}
	byName := map[string]*GenItem{}
	for _, it := range items {
		if !(it.ExitOK && it.Files) {
			o.Inconclusive = append(o.Inconclusive, "stub item "+it.Name+" was not generated")
			continue
		}
		var hs []Harness
		if it.Grammar != nil {
			sizes := [][2]int{{1, 1}, {2, 2}, {2, 3}, {1, 33}, {2, 40}}
			if c.Thorough() {
				sizes = append(sizes, [2]int{3, 4})
			}
			for _, sz := range sizes {
				hs = append(hs, Harness{Name: fmt.Sprintf("gen.FindUnit[rows=%d,pairs=%d]", sz[0], sz[1]), Func: "H_FindUnit", Quiet: true,
					Params: map[string]int{"rows": sz[0], "pairs": sz[1]}, Reach: []string{"found", "not-found"},
					Bounds: fmt.Sprintf("arbitrary well-formed table of %d rows x %d pairs, arbitrary row and key", sz[0], sz[1])})
			}
		} else {
			ks := []int{1, 2, 3}
			if c.Thorough() {
				ks = append(ks, 5, 8)
			}
			for _, k := range ks {
				hs = append(hs, Harness{Name: fmt.Sprintf("gen.PushRuneUnit[ranges=%d]", k), Func: "H_PushRuneUnit", Quiet: true,
					Params: map[string]int{"ranges": k}, Reach: []string{"consume", "accept"},
					Bounds: fmt.Sprintf("arbitrary sorted disjoint row of %d ranges, arbitrary flag, two arbitrary runes", k)})
			}
		}
		for _, h := range hs {
			r, err := c.RunGenHarness(gprog, it, h)
			if err != nil {
				o.Broken = append(o.Broken, err.Error())
				continue
			}
			o.Add(r)
			byName[r.H.Name] = it
			c.HandleGenCex(o, it, r)
		}
	}
	// concrete precondition over every lexer corpus item: emitted rows are well-formed
	var all []*corpus.LexSpec
	all = append(all, corpus.LexGreedy()...)
	all = append(all, corpus.LexModes()...)
	all = append(all, corpus.LexNonGreedy()...)
	all = append(all, corpus.LexNumbering()...)
	items2, err := c.Generate(nil, all)
	if err == nil {
		gprog2, err2 := c.LoadGen()
		if err2 != nil {
			o.Broken = append(o.Broken, "load: "+err2.Error())
		} else {
			for _, it := range items2 {
				if !(it.ExitOK && it.Files) {
					continue
				}
				h := Harness{Name: "gen.RowInvariant[" + it.Name + "]", Func: "H_RowInvariant", Quiet: true, Reach: []string{"rows-checked"},
					Bounds: "concrete: every row of every mode table of the item (precondition of the kernel lemmas, not solver-decided)"}
				r, err := c.RunGenHarness(gprog2, it, h)
				if err != nil {
					o.Broken = append(o.Broken, err.Error())
					continue
				}
				o.Add(r)
				byName[r.H.Name] = it
				c.HandleGenCex(o, it, r)
			}
			// whole-language product for the default mode of selected items
			prodItems := map[string]bool{"L-kw1": true, "L-ovl": true, "L-tri": true, "L-ng7": true, "L-mode1": true, "L-act-poppush": true}
			for _, it := range items2 {
				if !(it.ExitOK && it.Files) {
					continue
				}
				if c.Thorough() || prodItems[it.Name] {
					c.lexProduct(o, gprog2, it, 400, byName)
				}
			}
		}
	}
	c.ValidateSamples(o, byName, 4)
	o.Assumptions = []string{"row invariant assumed by PushRuneUnit/FindUnit (sorted, disjoint, B<=E; pairs behind an in-range index) is what TableRoundTrip and the per-item differentials (C01, C02) establish for emitted tables",
		"table layout taken from the documentation comments in emit_parser.go / emit_lexer.go"}
	o.Outside = []string{"whole-specification product of table and reference automaton over all strings (covered only up to the input bounds of C01/C02/C07)", "tables larger than the stated shapes"}
	return c.Finish(o)
}

// lexProduct closes the set of (table state, reference position set) pairs of
// the default mode of one item; every pair is one exploration deciding the
// step for all runes at once.
func (c *Ctx) lexProduct(o *Outcome, prog *symgo.Program, it *GenItem, maxPairs int, byName map[string]*GenItem) {
	modes := []int{0}
	for mi := range it.Lexer.ModeAccess(6) {
		modes = append(modes, mi)
	}
	sort.Ints(modes)
	for _, mi := range modes {
		c.lexProductMode(o, prog, it, mi, maxPairs, byName)
	}
	if o.Extra == nil {
		o.Extra = map[string]any{}
	}
	o.Extra["product_modes_"+it.Name] = fmt.Sprintf("%d of %d modes reachable through non-extendable matches", len(modes), len(it.Lexer.Modes))
}

func (c *Ctx) lexProductMode(o *Outcome, prog *symgo.Program, it *GenItem, mi int, maxPairs int, byName map[string]*GenItem) {
	type job struct{ access []int }
	seen := map[string]bool{"": true}
	work := []job{{nil}}
	pairs := 0
	for len(work) > 0 && pairs < maxPairs {
		j := work[0]
		work = work[1:]
		pairs++
		params := map[string]int{"alen": len(j.access), "mode": mi}
		for i, a := range j.access {
			params[fmt.Sprintf("a%d", i)] = a
		}
		h := Harness{Name: fmt.Sprintf("gen.Product[%s,mode=%d,pair=%d]", it.Name, mi, pairs), Func: "H_Product", Params: params, Quiet: true, CollectAll: true,
			Bounds: fmt.Sprintf("pair reached by the access string %v; every rune -1..U+10FFFF", j.access)}
		r, err := c.RunGenHarness(prog, it, h)
		if err != nil {
			o.Broken = append(o.Broken, err.Error())
			return
		}
		o.Add(r)
		byName[r.H.Name] = it
		c.HandleGenCex(o, it, r)
		if len(r.Rep.Cex) > 0 {
			return
		}
		for _, pl := range r.Rep.PathLogs {
			for _, line := range pl.Observed {
				if !strings.HasPrefix(line, "collect:") {
					continue
				}
				key := line[len("collect:"):]
				if seen[key] {
					continue
				}
				seen[key] = true
				rv := int(int32(uint32(pl.Inputs["r"])))
				acc := append(append([]int{}, j.access...), rv)
				work = append(work, job{acc})
			}
		}
	}
	if o.Extra == nil {
		o.Extra = map[string]any{}
	}
	closed := len(work) == 0
	o.Extra[fmt.Sprintf("product_%s_mode%d", it.Name, mi)] = map[string]any{"pairs": pairs, "closed": closed}
	if !closed {
		o.Inconclusive = append(o.Inconclusive, fmt.Sprintf("gen.Product[%s,mode=%d]: more than %d pairs, set not closed", it.Name, mi, maxPairs))
	}
}
