package checks

import (
	"encoding/json"
	"fmt"
	"os"
	"os/exec"
	"path/filepath"
	"sort"
	"strings"
	"sync"
	"time"

	"verif/corpus"
	"verif/symgo"
)

// C10: emitted tables are faithful to the automata.
func C10(c *Ctx) int {
	o := &Outcome{}
	// K TableRoundTrip on the real table[E] code
	prog, err := c.LoadRepo()
	if err != nil {
		fmt.Println("load:", err)
		return 2
	}
	type tp struct{ rows, cells, gaps int }
	shapes := []tp{{1, 1, 0}, {2, 2, 2}, {3, 1, 4}}
	runShapes := func(shapes []tp) {
		for _, fn := range []string{"H_TableInt32", "H_TableUint32"} {
			for _, sh := range shapes {
				h := Harness{Name: fmt.Sprintf("codegen.%s[rows=%d,cells=%d,gaps=%d]", fn[2:], sh.rows, sh.cells, sh.gaps), Pkg: "internal/codegen", Func: fn,
					Params: map[string]int{"rows": sh.rows, "cells": sh.cells, "gaps": sh.gaps}, Quiet: true,
					Bounds: fmt.Sprintf("%d rows of up to %d arbitrary 32-bit cells, hole pattern %b", sh.rows, sh.cells, sh.gaps)}
				if sh.rows >= 3 {
					h.Reach = []string{"shared-row", "distinct-rows"}
				}
				if sh.gaps != 0 {
					h.Reach = append(h.Reach, "hole")
				}
				r, err := c.RunHarness(prog, h)
				if err != nil {
					o.Broken = append(o.Broken, err.Error())
					continue
				}
				o.Add(r)
				c.HandleRepoCex(o, r, nil)
			}
		}
	}
	runShapes(shapes)
	if r, err := c.RunHarness(prog, Harness{Name: "codegen.TableAdversarial", Pkg: "internal/codegen", Func: "H_TableAdversarial", Reach: []string{"pairs-checked"}, Quiet: true,
		Bounds: "concrete: twenty pairs of different rows that collide under plausible wrong row keys (digit concatenation, sums, permutations, prefixes, sign); not solver-decided"}); err != nil {
		o.Broken = append(o.Broken, err.Error())
	} else {
		o.Add(r)
		c.HandleRepoCex(o, r, nil)
	}
	c.ValidateSamples(o, nil, 4)

	// K FindUnit / PushRuneUnit on code rendered from the current templates
	var gs []*corpus.Grammar
	for _, g := range corpus.ParserLanguage() {
		if g.Name == "P-expr" {
			gs = append(gs, g)
		}
	}
	specs := corpus.LexGreedy()[:1]
	items, err := c.Generate(gs, specs)
	if err != nil {
		fmt.Println("generate:", err)
		return 2
	}
	gprog, err := c.LoadGen()
	if err != nil {
		fmt.Println("load generated:", err)
		return 2
	}
	byName := map[string]*GenItem{}
	type deferredRun struct {
		it *GenItem
		h  Harness
	}
	var deferred []deferredRun
	for _, it := range items {
		if !(it.ExitOK && it.Files) {
			o.Inconclusive = append(o.Inconclusive, "stub item "+it.Name+" was not generated")
			continue
		}
		var hs []Harness
		if it.Grammar != nil {
			sizes := [][2]int{{1, 1}, {2, 2}, {2, 3}, {1, 33}, {2, 40}}
			if c.Thorough() {
				sizes = append(sizes, [2]int{3, 4})
			}
			for _, sz := range sizes {
				hs = append(hs, Harness{Name: fmt.Sprintf("gen.FindUnit[rows=%d,pairs=%d]", sz[0], sz[1]), Func: "H_FindUnit", Quiet: true,
					Params: map[string]int{"rows": sz[0], "pairs": sz[1]}, Reach: []string{"found", "not-found"},
					Bounds: fmt.Sprintf("arbitrary well-formed table of %d rows x %d pairs, arbitrary row and key", sz[0], sz[1])})
			}
		} else {
			ks := []int{1, 2, 3}
			if c.Thorough() {
				ks = append(ks, 5, 8)
			}
			for _, k := range ks {
				hs = append(hs, Harness{Name: fmt.Sprintf("gen.PushRuneUnit[ranges=%d]", k), Func: "H_PushRuneUnit", Quiet: true,
					Params: map[string]int{"ranges": k}, Reach: []string{"consume", "accept"},
					Bounds: fmt.Sprintf("arbitrary sorted disjoint row of %d ranges, arbitrary flag, two arbitrary runes", k)})
			}
		}
		for _, h := range hs {
			if h.Params["ranges"] > 3 {
				// beyond the quick bounds: run at the end with what is left of the budget
				deferred = append(deferred, deferredRun{it, h})
				continue
			}
			r, err := c.RunGenHarness(gprog, it, h)
			if err != nil {
				o.Broken = append(o.Broken, err.Error())
				continue
			}
			o.Add(r)
			byName[r.H.Name] = it
			c.HandleGenCex(o, it, r)
		}
	}
	// concrete precondition over every lexer corpus item: emitted rows are well-formed
	var all []*corpus.LexSpec
	all = append(all, corpus.LexGreedy()...)
	all = append(all, corpus.LexModes()...)
	all = append(all, corpus.LexNonGreedy()...)
	all = append(all, corpus.LexNumbering()...)
	all = append(all, corpus.LexAccount()...)
	items2, err := c.Generate(nil, all)
	if err == nil {
		gprog2, err2 := c.LoadGen()
		if err2 != nil {
			o.Broken = append(o.Broken, "load: "+err2.Error())
		} else {
			for _, it := range items2 {
				if !(it.ExitOK && it.Files) {
					continue
				}
				h := Harness{Name: "gen.RowInvariant[" + it.Name + "]", Func: "H_RowInvariant", Quiet: true, Reach: []string{"rows-checked"},
					Bounds: "concrete: every row of every mode table of the item (precondition of the kernel lemmas, not solver-decided)"}
				r, err := c.RunGenHarness(gprog2, it, h)
				if err != nil {
					o.Broken = append(o.Broken, err.Error())
					continue
				}
				o.Add(r)
				byName[r.H.Name] = it
				c.HandleGenCex(o, it, r)
			}
			// whole-language product for the default mode of selected items
			prodItems := map[string]bool{"L-null-eq": true, "L-null-mode": true, "L-nullbody": true, "L-kw1": true, "L-ovl": true, "L-tri": true, "L-ng7": true, "L-mode1": true, "L-act-poppush": true}
			for _, it := range items2 {
				if !(it.ExitOK && it.Files) {
					continue
				}
				if c.Thorough() || prodItems[it.Name] {
					c.lexProduct(o, gprog2, it, 400, byName)
				}
			}
		}
	}
	c.parserTables(o, byName)
	c.ValidateSamples(o, byName, 4)
	if c.Thorough() {
		// the larger kernels and table shapes last: they use whatever is left of the budget
		for _, d := range deferred {
			r, err := c.RunGenHarness(gprog, d.it, d.h)
			if err != nil {
				o.Broken = append(o.Broken, err.Error())
				continue
			}
			o.Add(r)
			byName[r.H.Name] = d.it
			c.HandleGenCex(o, d.it, r)
		}
		runShapes([]tp{{3, 2, 0}, {3, 2, 5}, {2, 3, 1}, {4, 1, 10}})
	}
	o.Assumptions = []string{"row invariant assumed by PushRuneUnit/FindUnit (sorted, disjoint, B<=E; pairs behind an in-range index) is what TableRoundTrip and the per-item differentials (C01, C02) establish for emitted tables",
		"table layout taken from the documentation comments in emit_parser.go / emit_lexer.go"}
	o.Outside = []string{"whole-specification product of table and reference automaton over all strings (covered only up to the input bounds of C01/C02/C07)", "tables larger than the stated shapes"}
	return c.Finish(o)
}

// lexProduct closes the set of (table state, reference position set) pairs of
// the default mode of one item; every pair is one exploration deciding the
// step for all runes at once.
func (c *Ctx) lexProduct(o *Outcome, prog *symgo.Program, it *GenItem, maxPairs int, byName map[string]*GenItem) {
	modes := []int{0}
	for mi := range it.Lexer.ModeAccess(6) {
		modes = append(modes, mi)
	}
	sort.Ints(modes)
	for _, mi := range modes {
		c.lexProductMode(o, prog, it, mi, maxPairs, byName)
	}
	if o.Extra == nil {
		o.Extra = map[string]any{}
	}
	o.Extra["product_modes_"+it.Name] = fmt.Sprintf("%d of %d modes reachable through non-extendable matches", len(modes), len(it.Lexer.Modes))
}

func (c *Ctx) lexProductMode(o *Outcome, prog *symgo.Program, it *GenItem, mi int, maxPairs int, byName map[string]*GenItem) {
	type job struct{ access []int }
	seen := map[string]bool{"": true}
	work := []job{{nil}}
	pairs := 0
	for len(work) > 0 && pairs < maxPairs {
		j := work[0]
		work = work[1:]
		pairs++
		params := map[string]int{"alen": len(j.access), "mode": mi}
		for i, a := range j.access {
			params[fmt.Sprintf("a%d", i)] = a
		}
		h := Harness{Name: fmt.Sprintf("gen.Product[%s,mode=%d,pair=%d]", it.Name, mi, pairs), Func: "H_Product", Params: params, Quiet: true, CollectAll: true,
			Bounds: fmt.Sprintf("pair reached by the access string %v; every rune -1..U+10FFFF", j.access)}
		r, err := c.RunGenHarness(prog, it, h)
		if err != nil {
			o.Broken = append(o.Broken, err.Error())
			return
		}
		o.Add(r)
		byName[r.H.Name] = it
		c.HandleGenCex(o, it, r)
		if len(r.Rep.Cex) > 0 {
			return
		}
		for _, pl := range r.Rep.PathLogs {
			for _, line := range pl.Observed {
				if !strings.HasPrefix(line, "collect:") {
					continue
				}
				key := line[len("collect:"):]
				if seen[key] {
					continue
				}
				seen[key] = true
				rv := int(int32(uint32(pl.Inputs["r"])))
				acc := append(append([]int{}, j.access...), rv)
				work = append(work, job{acc})
			}
		}
	}
	if o.Extra == nil {
		o.Extra = map[string]any{}
	}
	closed := len(work) == 0
	o.Extra[fmt.Sprintf("product_%s_mode%d", it.Name, mi)] = map[string]any{"pairs": pairs, "closed": closed}
	if !closed {
		o.Inconclusive = append(o.Inconclusive, fmt.Sprintf("gen.Product[%s,mode=%d]: more than %d pairs, set not closed", it.Name, mi, maxPairs))
	}
}

// parserTables: for parser corpus items the emitted _actions/_goto/_rules/
// _termCounts must decode (through the emitted _Find) to the automaton the
// generator constructed, for every state and every int32 key.
func (c *Ctx) parserTables(o *Outcome, byName map[string]*GenItem) {
	var gs []*corpus.Grammar
	gs = append(gs, corpus.ParserLanguageAll(c.Thorough())...)
	gs = append(gs, corpus.ParserRecovery()...)
	if c.Thorough() {
		gs = append(gs, corpus.ParserConflicts()...)
		gs = append(gs, corpus.ParserPrecedence()...)
	} else {
		gs = append(gs, corpus.ParserPrecedence()[:4]...)
	}
	items, err := c.Generate(gs, nil)
	if err != nil {
		o.Broken = append(o.Broken, "parser tables: "+err.Error())
		return
	}
	dumps, err := c.DumpTables(items)
	if err != nil {
		o.Broken = append(o.Broken, "parser tables: "+err.Error())
		return
	}
	var ready []*GenItem
	for _, it := range items {
		if !(it.ExitOK && it.Files) {
			continue
		}
		d := dumps[it.Name]
		if d == nil || !d.OK {
			o.Broken = append(o.Broken, "parser tables: no automaton dumped for "+it.Name+" although lox generated it")
			continue
		}
		if d.Multi > 0 {
			o.Violations = append(o.Violations, fmt.Sprintf("VIOLATION property=C10 replay=%s", c.SaveReplay("unresolved-cell-emitted-"+it.Name,
				map[string]any{"item": it.Name, "what": "lox generated code although the constructed table has cells with more than one action", "cells": d.Multi})))
			continue
		}
		os.WriteFile(filepath.Join(it.Dir, "zz_table_h.go"), []byte(tableHarnessGo(it.Pkg, d)), 0644)
		ready = append(ready, it)
	}
	prog, err := c.LoadGen()
	if err != nil {
		o.Broken = append(o.Broken, "parser tables: load: "+err.Error())
		return
	}
	var mu sync.Mutex
	var wg sync.WaitGroup
	sem := make(chan bool, 4)
	for _, it := range ready {
		d := dumps[it.Name]
		for tbl, reach := range [][]string{{"action", "none"}, {"none"}, {"prod"}} {
			if tbl == 1 && len(d.Gotos) > 0 {
				reach = []string{"goto", "none"}
			}
			wg.Add(1)
			sem <- true
			go func(it *GenItem, tbl int, reach []string) {
				defer wg.Done()
				defer func() { <-sem }()
				h := Harness{Name: fmt.Sprintf("gen.ParserTable[%s,%s]", it.Name, []string{"actions", "goto", "productions"}[tbl]), Func: "H_ParserTable", Quiet: true,
					Params: map[string]int{"table": tbl}, Reach: reach, Workers: 4,
					Bounds: fmt.Sprintf("every state of the item (%d) and every int32 key; expectation = the automaton dumped from the generator's memory (%d actions, %d gotos, %d productions)", d.States, len(d.Actions), len(d.Gotos), len(d.Prods))}
				r, err := c.RunGenHarness(prog, it, h)
				mu.Lock()
				defer mu.Unlock()
				if err != nil {
					o.Broken = append(o.Broken, err.Error())
					return
				}
				o.Add(r)
				byName[r.H.Name] = it
				if len(r.Rep.Cex) > 0 {
					mu.Unlock()
					c.HandleGenCex(o, it, r)
					mu.Lock()
				}
			}(it, tbl, reach)
		}
	}
	wg.Wait()
	if o.Extra == nil {
		o.Extra = map[string]any{}
	}
	o.Extra["parser_items_with_table_decode_check"] = len(ready)
}

// TableDump mirrors vTableDump of harness/repo/codegen_dump_h.go.
type TableDump struct {
	OK        bool
	Terminals []string
	Rules     []string
	Prods     [][2]int
	States    int
	Actions   [][4]int
	Multi     int
	Gotos     [][3]int
}

// DumpTables runs /repo's real front end (natively, built from the working tree
// with the harness overlay) on the .lox files of the items and returns the
// automaton it constructs for each.
func (c *Ctx) DumpTables(items []*GenItem) (map[string]*TableDump, error) {
	dir, err := os.MkdirTemp(c.Scratch, "dump-")
	if err != nil {
		return nil, err
	}
	virt, err := repoOverlay()
	if err != nil {
		return nil, err
	}
	repl := map[string]string{}
	for v, real := range virt {
		repl[v] = real
	}
	vrtFile := filepath.Join(dir, "vrt.go")
	os.WriteFile(vrtFile, []byte(symgo.VrtSource), 0644)
	repl[filepath.Join(RepoDir, "zz_verif/vrt/vrt.go")] = vrtFile
	testFile := filepath.Join(dir, "dump_test.go")
	os.WriteFile(testFile, []byte("package codegen\n\nimport \"testing\"\n\nfunc TestVerifDump(t *testing.T) { VDumpTables() }\n"), 0644)
	repl[filepath.Join(RepoDir, "internal/codegen/zz_verif_dump_test.go")] = testFile
	ov, _ := json.Marshal(map[string]any{"Replace": repl})
	ovFile := filepath.Join(dir, "overlay.json")
	os.WriteFile(ovFile, ov, 0644)
	bin := filepath.Join(dir, "dump.test")
	build := exec.Command("go", "test", "-c", "-vet=off", "-o", bin, "-overlay", ovFile, "./internal/codegen")
	build.Dir = RepoDir
	build.Env = goEnv()
	if out, err := runTimeout(build, 5*time.Minute); err != nil {
		return nil, fmt.Errorf("building the table dumper: %v\n%s", err, firstN(string(out), 800))
	}
	var dirs []string
	for _, it := range items {
		if it.ExitOK && it.Files {
			dirs = append(dirs, it.Dir)
		}
	}
	cmd := exec.Command(bin, "-test.run", "^TestVerifDump$", "-test.timeout", "300s")
	cmd.Dir = c.Scratch
	cmd.Env = append(goEnv(), "VERIF_DUMP_DIRS="+strings.Join(dirs, ":"))
	if out, err := runTimeout(cmd, 6*time.Minute); err != nil {
		return nil, fmt.Errorf("running the table dumper: %v\n%s", err, firstN(string(out), 800))
	}
	res := map[string]*TableDump{}
	for _, it := range items {
		data, err := os.ReadFile(filepath.Join(it.Dir, "zz_table.json"))
		if err != nil {
			continue
		}
		d := &TableDump{}
		if json.Unmarshal(data, d) == nil {
			res[it.Name] = d
		}
		os.Remove(filepath.Join(it.Dir, "zz_table.json"))
	}
	return res, nil
}

// tableHarnessGo renders the harness that compares the emitted parser tables
// of one item with the dumped automaton.
func tableHarnessGo(pkg string, d *TableDump) string {
	var sb strings.Builder
	fmt.Fprintf(&sb, "package %s\n\nimport (\n\t\"math\"\n\n\t\"vgen/vrt\"\n)\n\n", pkg)
	fmt.Fprintf(&sb, "const vTblStates = %d\n\n", d.States)
	sb.WriteString("// state, terminal, kind (0 shift, 1 reduce, 2 accept), state or production\nvar vTblActs = [][4]int32{\n")
	for _, a := range d.Actions {
		fmt.Fprintf(&sb, "\t{%d, %d, %d, %d},\n", a[0], a[1], a[2], a[3])
	}
	sb.WriteString("}\n\n// state, rule, target\nvar vTblGotos = [][3]int32{\n")
	for _, g := range d.Gotos {
		fmt.Fprintf(&sb, "\t{%d, %d, %d},\n", g[0], g[1], g[2])
	}
	sb.WriteString("}\n\n// rule, number of terms\nvar vTblProds = [][2]int32{\n")
	for _, p := range d.Prods {
		fmt.Fprintf(&sb, "\t{%d, %d},\n", p[0], p[1])
	}
	sb.WriteString(`}

// H_ParserTable: the emitted _actions / _goto / _rules / _termCounts decode,
// through the emitted _Find, to exactly the automaton the generator constructed:
// for every state and every int32 key (terminals, rules, and keys that are
// neither) the decoded cell is the constructed one, and absent where the
// automaton has none.
func H_ParserTable() {
	s := vrt.Int32("s")
	x := vrt.Int32("x")
	vrt.Assume(vrt.And(s >= 0, s < vTblStates))
	switch vrt.Param("table", 0) {
	case 0:
		got, ok := _Find(_actions, s, x)
		hit := false
		for _, e := range vTblActs {
			if s == e[0] && x == e[1] {
				hit = true
				want := e[3]
				switch e[2] {
				case 1:
					want = -e[3]
				case 2:
					want = math.MaxInt32
				}
				vrt.Assert(ok, "constructed-action-is-in-the-emitted-table")
				vrt.Assert(got == want, "emitted-action-decodes-to-the-constructed-one")
				vrt.Reach("action")
				break
			}
		}
		if !hit {
			vrt.Assert(!ok, "no-emitted-action-where-the-automaton-has-none")
			vrt.Reach("none")
		}
	case 1:
		got, ok := _Find(_goto, s, x)
		hit := false
		for _, e := range vTblGotos {
			if s == e[0] && x == e[1] {
				hit = true
				vrt.Assert(ok, "constructed-goto-is-in-the-emitted-table")
				vrt.Assert(got == e[2], "emitted-goto-decodes-to-the-constructed-one")
				vrt.Reach("goto")
				break
			}
		}
		if !hit {
			vrt.Assert(!ok, "no-emitted-goto-where-the-automaton-has-none")
			vrt.Reach("none")
		}
	default:
		vrt.Assert(len(_rules) == len(vTblProds) && len(_termCounts) == len(vTblProds), "one-entry-per-production")
		p := vrt.Int("p")
		vrt.Assume(vrt.And(p >= 0, p < len(vTblProds)))
		p = vrt.Concretize(p)
		vrt.Assert(_rules[p] == vTblProds[p][0], "emitted-rule-of-production")
		vrt.Assert(_termCounts[p] == vTblProds[p][1], "emitted-length-of-production")
		vrt.Reach("prod")
	}
}
`)
	return sb.String()
}
