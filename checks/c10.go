package checks

import (
	"fmt"

	"verif/corpus"
)

// C10: emitted tables are faithful to the automata.
func C10(c *Ctx) int {
	o := &Outcome{}
	// K TableRoundTrip on the real table[E] code
	prog, err := c.LoadRepo()
	if err != nil {
		fmt.Println("load:", err)
		return 2
	}
	type tp struct{ rows, cells, gaps int }
	shapes := []tp{{1, 1, 0}, {2, 2, 2}, {3, 1, 4}}
	if c.Thorough() {
		shapes = append(shapes, tp{3, 2, 0}, tp{3, 2, 5}, tp{2, 3, 1}, tp{4, 1, 10})
	}
	for _, fn := range []string{"H_TableInt32", "H_TableUint32"} {
		for _, sh := range shapes {
			h := Harness{Name: fmt.Sprintf("codegen.%s[rows=%d,cells=%d,gaps=%d]", fn[2:], sh.rows, sh.cells, sh.gaps), Pkg: "internal/codegen", Func: fn,
				Params: map[string]int{"rows": sh.rows, "cells": sh.cells, "gaps": sh.gaps}, Quiet: true,
				Bounds: fmt.Sprintf("%d rows of up to %d arbitrary 32-bit cells, hole pattern %b", sh.rows, sh.cells, sh.gaps)}
			if sh.rows >= 3 {
				h.Reach = []string{"shared-row", "distinct-rows"}
			}
			if sh.gaps != 0 {
				h.Reach = append(h.Reach, "hole")
			}
			r, err := c.RunHarness(prog, h)
			if err != nil {
				o.Broken = append(o.Broken, err.Error())
				continue
			}
			o.Add(r)
			c.HandleRepoCex(o, r, nil)
		}
	}
	c.ValidateSamples(o, nil, 4)

	// K FindUnit / PushRuneUnit on code rendered from the current templates
	var gs []*corpus.Grammar
	for _, g := range corpus.ParserLanguage() {
		if g.Name == "P-expr" {
			gs = append(gs, g)
		}
	}
	specs := corpus.LexGreedy()[:1]
	items, err := c.Generate(gs, specs)
	if err != nil {
		fmt.Println("generate:", err)
		return 2
	}
	gprog, err := c.LoadGen()
	if err != nil {
		fmt.Println("load generated:", err)
		return 2
	}
	byName := map[string]*GenItem{}
	for _, it := range items {
		if !(it.ExitOK && it.Files) {
			o.Inconclusive = append(o.Inconclusive, "stub item "+it.Name+" was not generated")
			continue
		}
		var hs []Harness
		if it.Grammar != nil {
			sizes := [][2]int{{1, 1}, {2, 2}, {2, 3}}
			if c.Thorough() {
				sizes = append(sizes, [2]int{3, 4})
			}
			for _, sz := range sizes {
				hs = append(hs, Harness{Name: fmt.Sprintf("gen.FindUnit[rows=%d,pairs=%d]", sz[0], sz[1]), Func: "H_FindUnit", Quiet: true,
					Params: map[string]int{"rows": sz[0], "pairs": sz[1]}, Reach: []string{"found", "not-found"},
					Bounds: fmt.Sprintf("arbitrary well-formed table of %d rows x %d pairs, arbitrary row and key", sz[0], sz[1])})
			}
		} else {
			ks := []int{1, 2, 3}
			if c.Thorough() {
				ks = append(ks, 5, 8)
			}
			for _, k := range ks {
				hs = append(hs, Harness{Name: fmt.Sprintf("gen.PushRuneUnit[ranges=%d]", k), Func: "H_PushRuneUnit", Quiet: true,
					Params: map[string]int{"ranges": k}, Reach: []string{"consume", "accept"},
					Bounds: fmt.Sprintf("arbitrary sorted disjoint row of %d ranges, arbitrary flag, two arbitrary runes", k)})
			}
		}
		for _, h := range hs {
			r, err := c.RunGenHarness(gprog, it, h)
			if err != nil {
				o.Broken = append(o.Broken, err.Error())
				continue
			}
			o.Add(r)
			byName[r.H.Name] = it
			c.HandleGenCex(o, it, r)
		}
	}
	// concrete precondition over every lexer corpus item: emitted rows are well-formed
	var all []*corpus.LexSpec
	all = append(all, corpus.LexGreedy()...)
	all = append(all, corpus.LexModes()...)
	all = append(all, corpus.LexNonGreedy()...)
	all = append(all, corpus.LexNumbering()...)
	items2, err := c.Generate(nil, all)
	if err == nil {
		gprog2, err2 := c.LoadGen()
		if err2 != nil {
			o.Broken = append(o.Broken, "load: "+err2.Error())
		} else {
			for _, it := range items2 {
				if !(it.ExitOK && it.Files) {
					continue
				}
				h := Harness{Name: "gen.RowInvariant[" + it.Name + "]", Func: "H_RowInvariant", Quiet: true, Reach: []string{"rows-checked"},
					Bounds: "concrete: every row of every mode table of the item (precondition of the kernel lemmas, not solver-decided)"}
				r, err := c.RunGenHarness(gprog2, it, h)
				if err != nil {
					o.Broken = append(o.Broken, err.Error())
					continue
				}
				o.Add(r)
				byName[r.H.Name] = it
				c.HandleGenCex(o, it, r)
			}
		}
	}
	c.ValidateSamples(o, byName, 4)
	o.Assumptions = []string{"row invariant assumed by PushRuneUnit/FindUnit (sorted, disjoint, B<=E; pairs behind an in-range index) is what TableRoundTrip and the per-item differentials (C01, C02) establish for emitted tables",
		"table layout taken from the documentation comments in emit_parser.go / emit_lexer.go"}
	o.Outside = []string{"whole-specification product of table and reference automaton over all strings (covered only up to the input bounds of C01/C02/C07)", "tables larger than the stated shapes"}
	return c.Finish(o)
}
