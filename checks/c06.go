package checks

import (
	"fmt"
	"os"
	"os/exec"
	"path/filepath"
	"time"

	"verif/corpus"
)

// C06: type-matched action binding (reduced: layouts on which lox succeeds
// compile and deliver every value).
func C06(c *Ctx) int {
	o := &Outcome{}
	layouts := corpus.TypeLayouts()
	items, err := c.Generate(nil, nil, layouts...)
	if err != nil {
		fmt.Println("generate:", err)
		return 2
	}
	// "whenever it succeeds the generated files compile with the package":
	// build every accepted item natively first (concrete, per item)
	for _, it := range items {
		if !(it.ExitOK && it.Files) {
			continue
		}
		cmd := exec.Command("go", "build", "./"+it.Pkg+"/...")
		cmd.Dir = filepath.Join(c.Scratch, "gen")
		cmd.Env = goEnv()
		if out, err := runTimeout(cmd, 3*time.Minute); err != nil {
			o.Violations = append(o.Violations, fmt.Sprintf("VIOLATION property=C06 replay=%s", c.SaveReplay("does-not-compile-"+it.Name,
				map[string]any{"item": it.Name, "note": it.Custom.Note, "what": "lox succeeded but the generated files do not compile with the package", "go_build": string(out)})))
			it.ExitOK = false
			os.RemoveAll(it.Dir)
		}
	}
	prog, err := c.LoadGen()
	if err != nil {
		o.Broken = append(o.Broken, "generated code does not load: "+err.Error())
		return c.Finish(o)
	}
	maxN := 6
	if c.Thorough() {
		maxN = 8
	}
	byName := map[string]*GenItem{}
	for _, it := range items {
		if _, gone := os.Stat(it.Dir); gone != nil && it.Files {
			continue // reported above: does not compile
		}
		if !(it.ExitOK && it.Files) {
			o.Violations = append(o.Violations, fmt.Sprintf("VIOLATION property=C06 replay=%s", c.SaveReplay("lox-rejects-"+it.Name,
				map[string]any{"item": it.Name, "note": it.Custom.Note, "what": "lox rejects a type layout whose parameter types accept the term types by Go assignability", "stderr": it.Stderr})))
			continue
		}
		for n := 1; n <= maxN; n++ {
			h := Harness{Name: fmt.Sprintf("parse.Types[%s,n=%d]", it.Name, n), Func: "H_Types", Params: map[string]int{"n": n}, Quiet: true,
				Bounds: fmt.Sprintf("all token sequences of length %d", n)}
			if n == maxN {
				h.Reach = []string{"accepted", "with-a-list", "with-z-list"}
			}
			r, err := c.RunGenHarness(prog, it, h)
			if err != nil {
				o.Broken = append(o.Broken, err.Error())
				continue
			}
			o.Add(r)
			byName[r.H.Name] = it
			c.HandleGenCex(o, it, r)
		}
	}
	c.ValidateSamples(o, byName, 6)
	// verdict clause on concrete cases (not solver-decided)
	rej := corpus.RejectedLayouts()
	for i := range rej {
		rej[i].HarnessGo = "package PKG\n"
	}
	ritems, err := c.Generate(nil, nil, rej...)
	verdicts := map[string]string{}
	if err == nil {
		for _, it := range ritems {
			accepted := it.ExitOK && it.Files
			want := it.Name == "V-ok"
			verdicts[it.Name] = fmt.Sprintf("accepted=%v (expected %v): %s", accepted, want, it.Custom.Note)
			diag := len(it.Stderr) > 0
			switch {
			case it.Crashed:
				o.Violations = append(o.Violations, fmt.Sprintf("VIOLATION property=C06 replay=%s", c.SaveReplay("crash-"+it.Name, map[string]any{"item": it.Name, "what": "lox crashed", "stderr": it.Stderr})))
			case accepted != want:
				o.Violations = append(o.Violations, fmt.Sprintf("VIOLATION property=C06 replay=%s", c.SaveReplay("verdict-"+it.Name,
					map[string]any{"item": it.Name, "what": "lox verdict differs from the documented one: " + it.Custom.Note, "accepted": accepted, "stderr": it.Stderr,
						"lox": it.Custom.Lox, "parser_go": it.Custom.Render(it.Custom.ParserGo, it.Pkg)})))
			case !accepted && !diag:
				o.Violations = append(o.Violations, fmt.Sprintf("VIOLATION property=C06 replay=%s", c.SaveReplay("nodiag-"+it.Name, map[string]any{"item": it.Name, "what": "rejected without a diagnostic"})))
			}
		}
	}
	o.Extra = map[string]any{"corpus_items": len(items), "verdict_cases_concrete_not_solver_decided": verdicts}
	o.Assumptions = []string{"type layouts are an enumerated corpus of six (identical, interface-typed, named slices, generic instantiations, imported types, aliases), all accepted by Go assignability",
		"type assertions in the generated _cast are evaluated by the engine with go/types identity / implements, as Go does"}
	o.Outside = []string{"the verdict clause 'lox succeeds exactly when ...' for missing, ambiguous or orphaned methods (behind go list / go/types: not encodable)", "layouts outside the corpus"}
	return c.Finish(o)
}
