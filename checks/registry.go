package checks

var Registry = map[string]func(*Ctx) int{
	"C15": C15,
	"C01": C01,
	"C02": C02,
	"C07": C07,
	"C08": C08,
	"C11": C11,
	"C12": C12,
	"C13": C13,
	"C03": C03,
	"C04": C04,
	"C05": C05,
	"C06": C06,
	"C09": C09,
	"C10": C10,
	"C16": C16,
	"C17": C17,
	"C18": C18,
	"C19": C19,
}
