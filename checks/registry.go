package checks

var Registry = map[string]func(*Ctx) int{
	"C15": C15,
	"C01": C01,
}
