package checks

import "fmt"

// C17: ill-formed specifications are rejected at the right place; valid ones pass.
func C17(c *Ctx) int {
	o := &Outcome{}
	prog, err := c.LoadRepo()
	if err != nil {
		fmt.Println("load:", err)
		return 2
	}
	var hs []Harness
	for place := 0; place < 3; place++ {
		hs = append(hs, Harness{Name: fmt.Sprintf("fe.TokenName[place=%d]", place), Pkg: "internal/codegen", Func: "H_TokenName", Params: map[string]int{"place": place},
			Reach: []string{"accepted", "rejected"}, Quiet: true,
			Bounds: "a two-byte token name (each byte any letter, digit or underscore) in the default mode / inside a mode / in a second file"})
		hs = append(hs, Harness{Name: fmt.Sprintf("fe.ClassRange[place=%d]", place), Pkg: "internal/codegen", Func: "H_ClassRange", Params: map[string]int{"place": place},
			Reach: []string{"accepted", "rejected"}, Quiet: true,
			Bounds: "[lo-hi] with lo, hi any letters or digits, in a token / in a macro / negated and subtracted inside a mode"})
	}
	for place := 0; place < 4; place++ {
		hs = append(hs, Harness{Name: fmt.Sprintf("fe.Reference[place=%d]", place), Pkg: "internal/codegen", Func: "H_Reference", Params: map[string]int{"place": place},
			Reach: []string{"accepted", "rejected"}, Quiet: true,
			Bounds: "a two-byte name in @emit( ) / @push_mode( ) / a macro reference / a parser term"})
	}
	hs = append(hs, Harness{Name: "fe.TokenName3", Pkg: "internal/codegen", Func: "H_TokenName3", Reach: []string{"accepted", "rejected"}, Quiet: true,
		Bounds: "a three-byte token name (each byte any letter, digit or underscore) in the default mode"})
	for others := 0; others <= 2; others++ {
		for rep := 0; rep <= 2; rep++ {
			if rep > 0 && others == 2 {
				continue
			}
			h := Harness{Name: fmt.Sprintf("fe.AliasAmbiguity[others=%d,rep=%d]", others, rep), Pkg: "internal/codegen", Func: "H_AliasAmbiguity", Params: map[string]int{"others": others, "rep": rep},
				Reach: []string{"rejected"}, Quiet: true,
				Bounds: fmt.Sprintf("a parser term refers to the literal 'x'; %d other tokens are spelled 'x'; one more token is spelled by any letter or digit followed by a blank or any cardinality; rep=%d: a further token 'x'+ / 'x'* (never an alias)", others, rep)}
			if others == 0 {
				h.Reach = []string{"rejected", "accepted"}
			}
			hs = append(hs, h)
		}
	}
	for _, h := range hs {
		if !onlyItem(h.Name) {
			continue
		}
		r, err := c.RunHarness(prog, h)
		if err != nil {
			o.Broken = append(o.Broken, err.Error())
			continue
		}
		o.Add(r)
		c.HandleRepoCex(o, r, nil)
	}
	c.ValidateSamples(o, nil, 6)
	o.Assumptions = []string{"the well-formedness predicate is mine, from the documentation: naming rules, uniqueness across tokens/macros/modes/rules, defined references of the right kind, lower <= upper in class ranges",
		"'names a position inside the declaration' is checked at line granularity on the printed diagnostics"}
	o.Outside = []string{"rule-name restrictions (they surface in the Go stage), macro cycles, @start multiplicity and @discard/@emit multiplicity (covered by the repository's own unit tests only)", "names longer than two bytes"}
	return c.Finish(o)
}
