package checks

import (
	"fmt"
	"sort"
)

// C15: character classes and literals denote exact code-point sets.
func C15(c *Ctx) int {
	o := &Outcome{}
	prog, err := c.LoadRepo()
	if err != nil {
		fmt.Println("load:", err)
		return 2
	}
	kF, kS, kN := 3, 2, 3
	if c.Thorough() {
		kF, kS, kN = 4, 2, 3
	}
	hs := []Harness{
		{Name: "rang3.Rel", Pkg: "internal/lexergen/rang3", Func: "H_Rel", Reach: []string{"contains", "intersects"},
			Bounds: "two arbitrary ranges 0<=B<=E<=U+10FFFF and an arbitrary code point"},
	}
	for k := 1; k <= kF; k++ {
		h := Harness{Name: fmt.Sprintf("rang3.Flatten[k=%d]", k), Pkg: "internal/lexergen/rang3", Func: "H_Flatten",
			Params: map[string]int{"k": k}, Bounds: fmt.Sprintf("%d arbitrary ranges, arbitrary probe code point", k)}
		if k > 1 {
			h.Reach = []string{"flatten-merged-all", "flatten-none-merged"}
		}
		hs = append(hs, h)
	}
	subs := [][2]int{}
	for ka := 1; ka <= kS; ka++ {
		for kb := 1; kb <= kS; kb++ {
			subs = append(subs, [2]int{ka, kb})
		}
	}
	if c.Thorough() {
		subs = append(subs, [2]int{3, 1}, [2]int{1, 3}, [2]int{3, 2}, [2]int{2, 3})
	}
	for _, sh := range subs {
		{
			ka, kb := sh[0], sh[1]
			h := Harness{Name: fmt.Sprintf("rang3.Subtract[ka=%d,kb=%d]", ka, kb), Pkg: "internal/lexergen/rang3", Func: "H_Subtract",
				Params: map[string]int{"ka": ka, "kb": kb}, Bounds: fmt.Sprintf("%d minus %d arbitrary ranges, arbitrary probe code point", ka, kb),
				Reach: []string{"subtract-empty"}}
			hs = append(hs, h)
		}
	}
	for k := 1; k <= kN; k++ {
		h := Harness{Name: fmt.Sprintf("rang3.Normalize[k=%d]", k), Pkg: "internal/lexergen/rang3", Func: "H_Normalize",
			Params: map[string]int{"k": k}, Bounds: fmt.Sprintf("%d arbitrary ranges, arbitrary probe code point", k)}
		if k > 1 {
			h.Reach = []string{"normalize-split"}
		}
		hs = append(hs, h)
	}
	kc := 2
	if c.Thorough() {
		kc = 3
	}
	for k := 1; k <= kc; k++ {
		hs = append(hs, Harness{Name: fmt.Sprintf("ast.ClassRanges[k=%d]", k), Pkg: "internal/ast", Func: "H_ClassRanges", Params: map[string]int{"k": k},
			Reach: []string{"negated", "plain"}, Bounds: fmt.Sprintf("[..] / ~[..] with %d arbitrary items, arbitrary probe code point", k)})
	}
	kni := 3
	if c.Thorough() {
		kni = 4
	}
	for k := 2; k <= kni; k++ {
		hs = append(hs, Harness{Name: fmt.Sprintf("mode.NormalizeInputs[k=%d]", k), Pkg: "internal/lexergen/mode", Func: "H_NormalizeInputs", Params: map[string]int{"k": k},
			Reach: []string{"split"}, Bounds: fmt.Sprintf("%d rules, each one transition on an arbitrary range; arbitrary probe code point", k)})
	}
	diffs := [][2]int{{1, 1}}
	if c.Thorough() {
		diffs = append(diffs, [2]int{2, 1}, [2]int{1, 2})
	}
	for _, sh := range diffs {
		hs = append(hs, Harness{Name: fmt.Sprintf("ast.ClassDifference[%d-%d]", sh[0], sh[1]), Pkg: "internal/ast", Func: "H_ClassDifference",
			Params: map[string]int{"ka": sh[0], "kb": sh[1]}, Reach: []string{"difference"},
			Bounds: fmt.Sprintf("class of %d items minus class of %d items, each side possibly negated", sh[0], sh[1])})
	}
	// the harnesses that go beyond the quick bounds run last (time budget)
	deep := map[string]bool{"rang3.Flatten[k=4]": true, "rang3.Subtract[ka=3,kb=1]": true, "rang3.Subtract[ka=1,kb=3]": true, "rang3.Subtract[ka=3,kb=2]": true,
		"rang3.Subtract[ka=2,kb=3]": true, "ast.ClassRanges[k=3]": true, "mode.NormalizeInputs[k=4]": true, "ast.ClassDifference[2-1]": true, "ast.ClassDifference[1-2]": true}
	sort.SliceStable(hs, func(a, b int) bool { return !deep[hs[a].Name] && deep[hs[b].Name] })
	for _, h := range hs {
		r, err := c.RunHarness(prog, h)
		if err != nil {
			o.Broken = append(o.Broken, err.Error())
			continue
		}
		o.Add(r)
		c.HandleRepoCex(o, r, nil)
	}
	c.ValidateSamples(o, nil, 6)
	o.Assumptions = []string{
		"ranges satisfy 0 <= B <= E <= U+10FFFF (the validity C17 demands)",
		"sort.Slice is modelled as an insertion sort calling the real less function",
	}
	o.Outside = []string{"more ranges per list than the stated k", "grammar-level class syntax beyond the catalogue"}
	return c.Finish(o)
}
