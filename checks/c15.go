package checks

import "fmt"

// C15: character classes and literals denote exact code-point sets.
func C15(c *Ctx) int {
	o := &Outcome{}
	prog, err := c.LoadRepo()
	if err != nil {
		fmt.Println("load:", err)
		return 2
	}
	kF, kS, kN := 3, 2, 3
	if c.Thorough() {
		kF, kS, kN = 4, 3, 3
	}
	hs := []Harness{
		{Name: "rang3.Rel", Pkg: "internal/lexergen/rang3", Func: "H_Rel", Reach: []string{"contains", "intersects"},
			Bounds: "two arbitrary ranges 0<=B<=E<=U+10FFFF and an arbitrary code point"},
	}
	for k := 1; k <= kF; k++ {
		h := Harness{Name: fmt.Sprintf("rang3.Flatten[k=%d]", k), Pkg: "internal/lexergen/rang3", Func: "H_Flatten",
			Params: map[string]int{"k": k}, Bounds: fmt.Sprintf("%d arbitrary ranges, arbitrary probe code point", k)}
		if k > 1 {
			h.Reach = []string{"flatten-merged-all", "flatten-none-merged"}
		}
		hs = append(hs, h)
	}
	for ka := 1; ka <= kS; ka++ {
		for kb := 1; kb <= kS; kb++ {
			h := Harness{Name: fmt.Sprintf("rang3.Subtract[ka=%d,kb=%d]", ka, kb), Pkg: "internal/lexergen/rang3", Func: "H_Subtract",
				Params: map[string]int{"ka": ka, "kb": kb}, Bounds: fmt.Sprintf("%d minus %d arbitrary ranges, arbitrary probe code point", ka, kb),
				Reach: []string{"subtract-empty"}}
			hs = append(hs, h)
		}
	}
	for k := 1; k <= kN; k++ {
		h := Harness{Name: fmt.Sprintf("rang3.Normalize[k=%d]", k), Pkg: "internal/lexergen/rang3", Func: "H_Normalize",
			Params: map[string]int{"k": k}, Bounds: fmt.Sprintf("%d arbitrary ranges, arbitrary probe code point", k)}
		if k > 1 {
			h.Reach = []string{"normalize-split"}
		}
		hs = append(hs, h)
	}
	for _, h := range hs {
		r, err := c.RunHarness(prog, h)
		if err != nil {
			o.Broken = append(o.Broken, err.Error())
			continue
		}
		o.Add(r)
		c.HandleRepoCex(o, r, nil)
	}
	c.ValidateSamples(o, nil, 6)
	o.Assumptions = []string{
		"ranges satisfy 0 <= B <= E <= U+10FFFF (the validity C17 demands)",
		"sort.Slice is modelled as an insertion sort calling the real less function",
	}
	o.Outside = []string{"more ranges per list than the stated k", "grammar-level class syntax beyond the catalogue"}
	return c.Finish(o)
}
