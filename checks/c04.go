package checks

import (
	"fmt"
	"os"
	"os/exec"
	"path/filepath"
	"strings"
	"sync"
	"time"

	"verif/corpus"
)

// C04: conflicts reported exactly when not LALR(1) (reduced form: the
// precedence rule and the kernel key, decided for all qualifier values).
func C04(c *Ctx) int {
	o := &Outcome{}
	prog, err := c.LoadRepo()
	if err != nil {
		fmt.Println("load:", err)
		return 2
	}
	pkg := "internal/parsergen/lr1"
	hs := []Harness{
		{Name: "lr1.ResolveBinary", Pkg: pkg, Func: "H_ResolveBinary", Reach: []string{"conflict", "resolved"},
			Bounds: "e = e OP1 e | e OP2 e | NUM through all of ConstructLALR; precedence of both productions any 64-bit int, any associativity"},
		{Name: "lr1.ResolveDangling", Pkg: pkg, Func: "H_ResolveDangling", Reach: []string{"conflict", "resolved"},
			Bounds: "s = IF s | IF s ELSE s | X; all three productions with arbitrary qualifiers"},
		{Name: "lr1.ResolveCrossRule", Pkg: pkg, Func: "H_ResolveCrossRule", Reach: []string{"conflict"},
			Bounds: "shift/reduce conflict across two rules; five productions with arbitrary qualifiers"},
		{Name: "lr1.ResolveReduceReduce", Pkg: pkg, Func: "H_ResolveReduceReduce", Reach: []string{"conflict"},
			Bounds: "reduce/reduce conflict across rules; four productions with arbitrary qualifiers"},
		{Name: "lr1.ResolveSameRuleRR", Pkg: pkg, Func: "H_ResolveSameRuleRR", Reach: []string{"conflict"},
			Bounds: "reduce/reduce conflict inside one rule; arbitrary qualifiers"},
		{Name: "lr1.ResolveThreeWay", Pkg: pkg, Func: "H_ResolveThreeWay", Reach: []string{"conflict"},
			Bounds: "a cell with one shift and two reduces; arbitrary qualifiers"},
	}
	hs = append(hs,
		Harness{Name: "lr1.ResolveSharedShiftCrossRule", Pkg: pkg, Func: "H_ResolveSharedShiftCrossRule", Reach: []string{"conflict"},
			Bounds: "a shift backed by productions of two rules (expr PLUS expr / incr = expr PLUS PLUS); four productions with arbitrary qualifiers"},
		Harness{Name: "lr1.ResolveSharedShiftOrder", Pkg: pkg, Func: "H_ResolveSharedShiftOrder", Reach: []string{"conflict"},
			Bounds: "the same with the rules declared in the other order"},
		Harness{Name: "lr1.ResolveMixedShift", Pkg: pkg, Func: "H_ResolveMixedShift", Reach: []string{"conflict", "resolved"},
			Bounds: "a shift backed by two productions of one rule; arbitrary qualifiers (differing positive levels outside the assertion)"})
	ks := []int{1, 2}
	for _, k := range ks {
		hs = append(hs, Harness{Name: fmt.Sprintf("lr1.KernelKey[items=%d]", k), Pkg: pkg, Func: "H_KernelKey", Params: map[string]int{"items": k},
			Reach: []string{"equal", "different"}, Bounds: fmt.Sprintf("two item sets of %d arbitrary items each (prod<4, dot<3, lookahead<3)", k)})
	}
	// whole-table harnesses: the real ConstructLALR on the conflict corpus under
	// an arbitrary map order, compared with the counts of my reference LALR(1)
	// construction
	conf := corpus.ParserConflicts()
	committed, _ := os.ReadFile(filepath.Join(VerifDir, "harness/repo/lr1_lalr_h.go"))
	if string(committed) != corpus.LALRHarnessGo(conf) {
		o.Broken = append(o.Broken, "harness/repo/lr1_lalr_h.go is stale: run `go run ./cmd/genlalr > harness/repo/lr1_lalr_h.go`")
	}
	for i, g := range conf {
		if !c.Thorough() && i%2 == 1 && g.Naming == "" {
			continue // quick: every other plain item, every renamed item
		}
		ref := g.LALR()
		items, acts := ref.Counts()
		hs = append(hs, Harness{Name: "lr1.LALRTable[" + g.Name + "]", Pkg: pkg, Func: corpus.LALRFuncName(g), MapOrder: true, Quiet: true,
			Params: map[string]int{"states": ref.States, "items": items, "actions": acts, "conflicts": ref.Conflicts},
			Reach:  []string{"built"}, MaxPaths: 3000,
			Bounds: "grammar " + g.Src + "; every range over a built-in map inside ConstructLALR in every order (all n! for n<=4 entries, rotations and reversals above); states, items, actions, conflicting cells and the verdict against my reference LALR(1) construction"})
	}
	if c.Thorough() {
		// last: it uses whatever is left of the budget
		hs = append(hs, Harness{Name: "lr1.KernelKey[items=3]", Pkg: pkg, Func: "H_KernelKey", Params: map[string]int{"items": 3},
			Reach: []string{"equal", "different"}, Bounds: "two item sets of 3 arbitrary items each (prod<4, dot<3, lookahead<3)"})
	}
	for _, h := range hs {
		r, err := c.RunHarness(prog, h)
		if err != nil {
			o.Broken = append(o.Broken, err.Error())
			continue
		}
		o.Add(r)
		c.HandleRepoCex(o, r, nil)
	}
	c.ValidateSamples(o, nil, 6)
	c.tableByProduct(o)
	o.Assumptions = []string{"lr1.LALRTable: the reference is my own canonical-LR(1)-then-merge construction over my own expansion of the sugar; it agrees with lox --report state by state on every corpus and random grammar on the unchanged tree (by-product below)",
		"qualifier harnesses: grammar shapes are fixed (nine small conflict grammars); every Precedence (64-bit) and Associativity is symbolic and the whole of ConstructLALR (closure, goto, look-ahead propagation, createActions, resolveConflicts) is executed",
		"precedence <= 0 stands for 'no qualifier', as the front end leaves it"}
	o.Outside = []string{"the verdict for grammars outside the corpus (structural; enumerated, not decided): the solver decides over map orders and qualifier values, not over grammar shapes",
		"resolution direction at equal levels for @right is C05's known finding and is not asserted here"}
	return c.Finish(o)
}

// tableByProduct (concrete, not solver-decided): every parser corpus item and a
// batch of random grammars goes through the real binary with --report; the
// printed table is compared state by state (items with look-aheads, actions,
// conflict marks, targets) with my reference LALR(1) construction, and the
// verdict (accepted / "grammar has conflicts") with the reference's.
func (c *Ctx) tableByProduct(o *Outcome) {
	lox, err := c.BuildLox()
	if err != nil {
		o.Broken = append(o.Broken, "table by-product: "+err.Error())
		return
	}
	var gs []*corpus.Grammar
	gs = append(gs, corpus.ParserLanguageAll(true)...)
	gs = append(gs, corpus.ParserConflicts()...)
	gs = append(gs, corpus.ParserRecovery()...)
	gs = append(gs, corpus.ParserPrecedence()...)
	nRand := 300
	if c.Thorough() {
		nRand = 3000
	}
	gs = append(gs, corpus.RandomGrammars(int64(c.Seed)+1, nRand)...)
	type res struct {
		name, diff, out string
	}
	results := make([]res, len(gs))
	var wg sync.WaitGroup
	sem := make(chan bool, 16)
	compared, rejected := 0, 0
	var mu sync.Mutex
	for i, g := range gs {
		wg.Add(1)
		sem <- true
		go func(i int, g *corpus.Grammar) {
			defer wg.Done()
			defer func() { <-sem }()
			dir, _ := os.MkdirTemp(c.Scratch, "tbl")
			defer os.RemoveAll(dir)
			os.WriteFile(filepath.Join(dir, "go.mod"), []byte("module x\ngo 1.23\n"), 0644)
			os.WriteFile(filepath.Join(dir, "g.lox"), []byte(g.Lox()), 0644)
			cmd := exec.Command(lox, "--report", ".")
			cmd.Dir = dir
			outB, runErr := runTimeout(cmd, 2*time.Minute)
			out := string(outB)
			results[i].name = g.Name
			got, err := corpus.ParseReport(out)
			if err != nil {
				results[i].diff = "no table printed: " + err.Error()
				results[i].out = out
				return
			}
			ref := g.LALR()
			if ref == nil {
				return
			}
			annotated := false
			for _, r := range g.Rules {
				for _, p := range r.Prods {
					if p.Assoc != "" {
						annotated = true
					}
				}
			}
			mu.Lock()
			compared++
			if ref.Conflicts > 0 {
				rejected++
			}
			mu.Unlock()
			if annotated {
				// qualifiers may remove actions: compare the item sets only
				if d := corpus.DiffItemSets(ref, got); d != "" {
					results[i].diff, results[i].out = d, out
				}
				return
			}
			if d := corpus.DiffTables(ref, got); d != "" {
				results[i].diff, results[i].out = d, out
				return
			}
			says := strings.Contains(out, "grammar has conflicts")
			_ = runErr // the scratch directory has no Go sources, so lox always exits 1 here; the verdict is the diagnostic
			if says != (ref.Conflicts > 0) {
				results[i].diff = fmt.Sprintf("verdict: reference has %d conflicting cells, lox said conflicts=%v", ref.Conflicts, says)
				results[i].out = out
			}
		}(i, g)
	}
	wg.Wait()
	bad := []string{}
	for i, r := range results {
		if r.diff == "" {
			continue
		}
		bad = append(bad, r.name)
		if len(bad) <= 6 {
			o.Violations = append(o.Violations, fmt.Sprintf("VIOLATION property=C04 replay=%s", c.SaveReplay("lalr-table-"+r.name,
				map[string]any{"item": r.name, "grammar": gs[i].Src, "spec": gs[i].Lox(), "what": "lox --report differs from the reference LALR(1) table (concrete by-product of the corpus driver, not solver-decided)", "difference": firstN(r.diff, 3000), "output": firstN(r.out, 3000)})))
		}
	}
	if o.Extra == nil {
		o.Extra = map[string]any{}
	}
	o.Extra["grammars_compared_with_reference_lalr1_not_solver_decided"] = compared
	o.Extra["of_which_not_lalr1"] = rejected
	o.Extra["grammars_whose_table_differs"] = bad
}
