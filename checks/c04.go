package checks

import "fmt"

// C04: conflicts reported exactly when not LALR(1) (reduced form: the
// precedence rule and the kernel key, decided for all qualifier values).
func C04(c *Ctx) int {
	o := &Outcome{}
	prog, err := c.LoadRepo()
	if err != nil {
		fmt.Println("load:", err)
		return 2
	}
	pkg := "internal/parsergen/lr1"
	hs := []Harness{
		{Name: "lr1.ResolveBinary", Pkg: pkg, Func: "H_ResolveBinary", Reach: []string{"conflict", "resolved"},
			Bounds: "e = e OP1 e | e OP2 e | NUM through all of ConstructLALR; precedence of both productions any 64-bit int, any associativity"},
		{Name: "lr1.ResolveDangling", Pkg: pkg, Func: "H_ResolveDangling", Reach: []string{"conflict", "resolved"},
			Bounds: "s = IF s | IF s ELSE s | X; all three productions with arbitrary qualifiers"},
		{Name: "lr1.ResolveCrossRule", Pkg: pkg, Func: "H_ResolveCrossRule", Reach: []string{"conflict"},
			Bounds: "shift/reduce conflict across two rules; five productions with arbitrary qualifiers"},
		{Name: "lr1.ResolveReduceReduce", Pkg: pkg, Func: "H_ResolveReduceReduce", Reach: []string{"conflict"},
			Bounds: "reduce/reduce conflict across rules; four productions with arbitrary qualifiers"},
		{Name: "lr1.ResolveSameRuleRR", Pkg: pkg, Func: "H_ResolveSameRuleRR", Reach: []string{"conflict"},
			Bounds: "reduce/reduce conflict inside one rule; arbitrary qualifiers"},
		{Name: "lr1.ResolveThreeWay", Pkg: pkg, Func: "H_ResolveThreeWay", Reach: []string{"conflict"},
			Bounds: "a cell with one shift and two reduces; arbitrary qualifiers"},
	}
	hs = append(hs,
		Harness{Name: "lr1.ResolveSharedShiftCrossRule", Pkg: pkg, Func: "H_ResolveSharedShiftCrossRule", Reach: []string{"conflict"},
			Bounds: "a shift backed by productions of two rules (expr PLUS expr / incr = expr PLUS PLUS); four productions with arbitrary qualifiers"},
		Harness{Name: "lr1.ResolveSharedShiftOrder", Pkg: pkg, Func: "H_ResolveSharedShiftOrder", Reach: []string{"conflict"},
			Bounds: "the same with the rules declared in the other order"},
		Harness{Name: "lr1.ResolveMixedShift", Pkg: pkg, Func: "H_ResolveMixedShift", Reach: []string{"conflict", "resolved"},
			Bounds: "a shift backed by two productions of one rule; arbitrary qualifiers (differing positive levels outside the assertion)"})
	ks := []int{1, 2}
	if c.Thorough() {
		ks = append(ks, 3)
	}
	for _, k := range ks {
		hs = append(hs, Harness{Name: fmt.Sprintf("lr1.KernelKey[items=%d]", k), Pkg: pkg, Func: "H_KernelKey", Params: map[string]int{"items": k},
			Reach: []string{"equal", "different"}, Bounds: fmt.Sprintf("two item sets of %d arbitrary items each (prod<4, dot<3, lookahead<3)", k)})
	}
	for _, h := range hs {
		h.Quiet = false
		r, err := c.RunHarness(prog, h)
		if err != nil {
			o.Broken = append(o.Broken, err.Error())
			continue
		}
		o.Add(r)
		c.HandleRepoCex(o, r, nil)
	}
	c.ValidateSamples(o, nil, 6)
	o.Assumptions = []string{"grammar shapes are fixed (seven small conflict grammars); every Precedence (64-bit) and Associativity is symbolic and the whole of ConstructLALR (closure, goto, look-ahead propagation, createActions, resolveConflicts) is executed",
		"precedence <= 0 stands for 'no qualifier', as the front end leaves it"}
	o.Outside = []string{"the verdict for arbitrary grammars (structural; not decided): rejection of an unambiguous LALR(1) grammar and acceptance of a non-LALR(1) grammar outside these shapes",
		"resolution direction at equal levels for @right is C05's known finding and is not asserted here"}
	return c.Finish(o)
}
