package checks

import (
	"fmt"
	"os"
	"strings"

	"verif/corpus"
)

func onlyItem(name string) bool {
	f := os.Getenv("VERIF_ONLY")
	return f == "" || strings.Contains(name, f)
}

// selfTestGrammars validates the reference models (CNF + CYK against a direct
// derivation search) before they are used as oracles.
func selfTestGrammars(o *Outcome, gs []*corpus.Grammar, n int) {
	for _, g := range gs {
		if err := g.SelfTest(n); err != nil {
			o.Broken = append(o.Broken, "reference self-test: "+err.Error())
		} else {
			o.Traces++
		}
	}
}

// HandleGenCex replays counterexamples of a generated-item harness.
func (c *Ctx) HandleGenCex(o *Outcome, it *GenItem, r *Result) {
	seen := map[string]bool{}
	for _, cex := range r.Rep.Cex {
		if seen[cex.ID] {
			continue
		}
		seen[cex.ID] = true
		rr, err := c.ReplayGen(it, r.H, cex)
		if err != nil {
			o.Broken = append(o.Broken, fmt.Sprintf("%s: replay failed: %v", r.H.Name, err))
			continue
		}
		r.Replays = append(r.Replays, rr)
		if !rr.Confirms {
			o.Broken = append(o.Broken, fmt.Sprintf("%s: counterexample %s does not reproduce natively (verdict %q): engine discrepancy; symbolic side said: %s\n%s", r.H.Name, cex.ID, rr.Verdict, cex.Msg, cex.Stack))
			continue
		}
		o.Traces++
		spec := ""
		if it.Grammar != nil {
			spec = it.Grammar.Lox()
		}
		path := c.SaveReplay(r.H.Name+"-"+cex.ID, map[string]any{"harness": r.H.Name, "item": it.Name, "func": r.H.Func,
			"params": r.H.Params, "inputs": cex.Inputs, "assert": cex.ID, "msg": cex.Msg, "native_verdict": rr.Verdict,
			"observed": cex.Observed, "spec": spec})
		key := it.Name + ":" + cex.ID
		if kf := c.KnownFor(c.Prop, key); kf != nil {
			o.Known = append(o.Known, fmt.Sprintf("KNOWN-FINDING: property=%s %s (%s)", c.Prop, kf.What, kf.ID))
			continue
		}
		o.Violations = append(o.Violations, fmt.Sprintf("VIOLATION property=%s replay=%s", c.Prop, path))
		c.Logf("  violated: %s %s — %s; inputs %v; native verdict: %s", r.H.Name, cex.ID, cex.Msg, cex.Inputs, rr.Verdict)
	}
}

// randomGrammars: the seeded small-scope generator (VERIF_SEED).
func (c *Ctx) randomGrammars() []*corpus.Grammar {
	n := 12
	if c.Thorough() {
		n = 80
	}
	return corpus.RandomGrammars(int64(c.Seed)+1, n)
}

// C01: the generated parser accepts exactly L(G).
func C01(c *Ctx) int {
	o := &Outcome{}
	c.runParseCheck(o, parseCheck{Func: "H_Member", Label: "parse.Member", Grammars: append(corpus.ParserLanguageAll(c.Thorough()), c.randomGrammars()...),
		MaxNQuick: 5, MaxNThor: 8, SelfTestN: 5, ReachAny: []string{"accepted", "rejected"}})
	o.Assumptions = []string{"the grammar dimension is an enumerated corpus, not solver-decided",
		"token kinds range over the item's terminals (EOF and ERROR excluded)",
		"reference: CYK over my own CNF conversion of my own sugar expansion, validated against a direct derivation search on every string up to length 5"}
	o.Outside = []string{"grammars outside the corpus", "inputs longer than the bound"}
	return c.Finish(o)
}

// C03: actions are the unique bottom-up derivation; sugar values.
func C03(c *Ctx) int {
	o := &Outcome{}
	c.runParseCheck(o, parseCheck{Func: "H_Tree", Label: "parse.Tree", Grammars: append(corpus.ParserLanguageAll(c.Thorough()), c.randomGrammars()...),
		MaxNQuick: 5, MaxNThor: 8, ReachAny: []string{"accepted"}})
	o.Assumptions = []string{"corpus grammars; Discard() results are symbolic per token and per node",
		"the derivation-tree checker (mine) accepts exactly derivation trees whose leaves are the input in order; uniqueness of the tree follows from lox accepting the grammar (C04) "}
	o.Outside = []string{"grammars outside the corpus", "inputs longer than the bound"}
	return c.Finish(o)
}

// C16: _onBounds.
func C16(c *Ctx) int {
	o := &Outcome{}
	var gs []*corpus.Grammar
	for _, g := range corpus.WithBounds(corpus.ParserLanguage()) {
		if strings.Contains(g.Src, "*!") {
			continue // the span of dropped *! elements is not pinned down by the documentation
		}
		gs = append(gs, g)
	}
	c.runParseCheck(o, parseCheck{Func: "H_Tree", Label: "parse.Bounds", Grammars: gs,
		MaxNQuick: 5, MaxNThor: 8, ReachAny: []string{"accepted"}})
	c.boundsLayouts(o)
	o.Assumptions = []string{"expected _onBounds calls are derived from the checked derivation tree: one per non-empty user node right after its action, one per helper reduction (list so far, optional value)",
		"'changes nothing else': the +B twin passes the same derivation-tree check as the plain item of C03, and the tree is unique"}
	o.Outside = []string{"x*! items (span of dropped elements undocumented)", "grammars outside the corpus"}
	return c.Finish(o)
}

// C05: @left/@right(n).
func C05(c *Ctx) int {
	o := &Outcome{}
	c.runParseCheck(o, parseCheck{Func: "H_Prec", Label: "parse.Prec", Grammars: corpus.ParserPrecedence(),
		MaxNQuick: 6, MaxNThor: 9, ReachAny: []string{"accepted", "two-operators"}})
	o.Assumptions = []string{"operator tables are an enumerated corpus; the reference is a precedence-climbing parser of mine"}
	o.Outside = []string{"mixed associativity at one level (undocumented)", "inputs longer than the bound"}
	return c.Finish(o)
}

// C09: syntax errors.
func C09(c *Ctx) int {
	o := &Outcome{}
	c.runParseCheck(o, parseCheck{Func: "H_Recover", Label: "parse.Recover", Grammars: corpus.ParserRecovery(),
		MaxNQuick: 4, MaxNThor: 6, MaxSteps: 3_000_000, UnwindCex: true, ReachAny: []string{"clean", "error", "error-delivered"}})
	o.Assumptions = []string{"step budget 3,000,000 SSA instructions per path (a parse of 6 tokens takes < 20,000); an overrun is replayed natively with a 20 s limit and reported only if the native run does not finish either"}
	o.Outside = []string{"grammars outside the corpus", "long inputs with bursts of errors"}
	return c.Finish(o)
}

// boundsLayouts: C16 on hand-written parser types (actions of interface type,
// nil results).
func (c *Ctx) boundsLayouts(o *Outcome) {
	items, err := c.Generate(nil, nil, corpus.BoundsLayouts()...)
	if err != nil {
		o.Broken = append(o.Broken, "bounds layouts: "+err.Error())
		return
	}
	prog, err := c.LoadGen()
	if err != nil {
		o.Broken = append(o.Broken, "bounds layouts: load: "+err.Error())
		return
	}
	maxN := 6
	if c.Thorough() {
		maxN = 9
	}
	byName := map[string]*GenItem{}
	for _, it := range items {
		if !(it.ExitOK && it.Files) {
			o.Broken = append(o.Broken, "bounds layouts: lox does not generate "+it.Name+": "+firstN(it.Stderr, 300))
			continue
		}
		for n := 0; n <= maxN; n++ {
			h := Harness{Name: fmt.Sprintf("parse.NilBounds[%s,n=%d]", it.Name, n), Func: "H_NilBounds", Params: map[string]int{"n": n}, Quiet: true,
				Bounds: fmt.Sprintf("all token sequences of length %d", n)}
			if n == maxN {
				h.Reach = []string{"accepted", "nil-result"}
			}
			r, err := c.RunGenHarness(prog, it, h)
			if err != nil {
				o.Broken = append(o.Broken, err.Error())
				continue
			}
			o.Add(r)
			byName[r.H.Name] = it
			c.HandleGenCex(o, it, r)
		}
	}
	c.ValidateSamples(o, byName, 3)
}
