package checks

import (
	"fmt"
	"os"
	"strings"

	"verif/corpus"
	"verif/symgo"
)

func onlyItem(name string) bool {
	f := os.Getenv("VERIF_ONLY")
	return f == "" || strings.Contains(name, f)
}

// selfTestGrammars validates the reference models (CNF + CYK against a direct
// derivation search) before they are used as oracles.
func selfTestGrammars(o *Outcome, gs []*corpus.Grammar, n int) {
	for _, g := range gs {
		if err := g.SelfTest(n); err != nil {
			o.Broken = append(o.Broken, "reference self-test: "+err.Error())
		} else {
			o.Traces++
		}
	}
}

// HandleGenCex replays counterexamples of a generated-item harness.
func (c *Ctx) HandleGenCex(o *Outcome, it *GenItem, r *Result) {
	seen := map[string]bool{}
	for _, cex := range r.Rep.Cex {
		if seen[cex.ID] {
			continue
		}
		seen[cex.ID] = true
		rr, err := c.ReplayGen(it, r.H, cex)
		if err != nil {
			o.Broken = append(o.Broken, fmt.Sprintf("%s: replay failed: %v", r.H.Name, err))
			continue
		}
		r.Replays = append(r.Replays, rr)
		if !rr.Confirms {
			o.Broken = append(o.Broken, fmt.Sprintf("%s: counterexample %s does not reproduce natively (verdict %q): engine discrepancy; symbolic side said: %s\n%s", r.H.Name, cex.ID, rr.Verdict, cex.Msg, cex.Stack))
			continue
		}
		o.Traces++
		spec := ""
		if it.Grammar != nil {
			spec = it.Grammar.Lox()
		}
		path := c.SaveReplay(r.H.Name+"-"+cex.ID, map[string]any{"harness": r.H.Name, "item": it.Name, "func": r.H.Func,
			"params": r.H.Params, "inputs": cex.Inputs, "assert": cex.ID, "msg": cex.Msg, "native_verdict": rr.Verdict,
			"observed": cex.Observed, "spec": spec})
		key := it.Name + ":" + cex.ID
		if kf := c.KnownFor(c.Prop, key); kf != nil {
			o.Known = append(o.Known, fmt.Sprintf("KNOWN-FINDING: property=%s %s (%s)", c.Prop, kf.What, kf.ID))
			continue
		}
		o.Violations = append(o.Violations, fmt.Sprintf("VIOLATION property=%s replay=%s", c.Prop, path))
		c.Logf("  violated: %s %s — %s; inputs %v; native verdict: %s", r.H.Name, cex.ID, cex.Msg, cex.Inputs, rr.Verdict)
	}
}

// C01: the generated parser accepts exactly L(G).
func C01(c *Ctx) int {
	o := &Outcome{}
	var gs []*corpus.Grammar
	for _, g := range corpus.ParserLanguage() {
		if onlyItem(g.Name) {
			gs = append(gs, g)
		}
	}
	selfTestGrammars(o, gs, 5)
	items, err := c.Generate(gs, nil)
	if err != nil {
		fmt.Println("generate:", err)
		return 2
	}
	prog, err := c.LoadGen()
	if err != nil {
		fmt.Println("load:", err)
		return 2
	}
	maxN := 5
	if c.Thorough() {
		maxN = 8
	}
	skipped := 0
	for _, it := range items {
		if !it.ExitOK || !it.Files {
			skipped++
			continue
		}
		for n := 0; n <= maxN; n++ {
			h := Harness{Name: fmt.Sprintf("parse.Member[%s,n=%d]", it.Name, n), Func: "H_Member",
				Params: map[string]int{"n": n}, Bounds: fmt.Sprintf("all token sequences of length %d over the item's terminals", n)}
			r, err := c.RunGenHarness(prog, it, h)
			if err != nil {
				o.Broken = append(o.Broken, err.Error())
				break
			}
			o.Add(r)
			c.HandleGenCex(o, it, r)
			if len(r.Rep.Cex) > 0 {
				break
			}
		}
	}
	o.Extra = map[string]any{"corpus_items": len(items), "items_skipped": skipped}
	o.Assumptions = []string{"the grammar dimension is an enumerated corpus, not solver-decided", "token kinds range over the item's terminals (EOF and ERROR excluded)"}
	o.Outside = []string{"grammars outside the corpus", "inputs longer than the bound"}
	_ = symgo.Sat
	return c.Finish(o)
}
