package checks

import (
	"encoding/json"
	"fmt"
	"os"
	"path/filepath"
	"strings"

	"verif/corpus"
	"verif/symgo"
)

// Replay re-runs a saved counterexample natively against /repo's current tree.
func Replay(path string) int {
	data, err := os.ReadFile(path)
	if err != nil {
		fmt.Println(err)
		return 2
	}
	var rp struct {
		Harness string            `json:"harness"`
		Pkg     string            `json:"pkg"`
		Func    string            `json:"func"`
		Item    string            `json:"item"`
		Params  map[string]int    `json:"params"`
		Inputs  map[string]uint64 `json:"inputs"`
		Assert  string            `json:"assert"`
	}
	if err := json.Unmarshal(data, &rp); err != nil {
		fmt.Println(err)
		return 2
	}
	c := NewCtxNoClean("replay", "quick")
	defer c.Cleanup()
	h := Harness{Name: rp.Harness, Pkg: rp.Pkg, Func: rp.Func, Params: rp.Params}
	cex := symgo.Cex{ID: rp.Assert, Inputs: rp.Inputs}
	var rr ReplayResult
	if rp.Item == "" {
		rr, err = c.ReplayRepo(h, cex)
	} else {
		var gs []*corpus.Grammar
		var ls []*corpus.LexSpec
		var cs []*corpus.Custom
		all := append(append(append(corpus.ParserLanguageAll(true), corpus.WithBounds(corpus.ParserLanguage())...), corpus.ParserPrecedence()...), corpus.ParserRecovery()...)
		all = append(all, corpus.ParserConflicts()...)
		var seed, idx int
		if n, _ := fmt.Sscanf(rp.Item, "R-%d-%d", &seed, &idx); n == 2 && idx < 5000 {
			all = append(all, corpus.RandomGrammars(int64(seed), idx+1)...)
		}
		for _, g := range all {
			if g.Name == rp.Item {
				gs = append(gs, g)
			}
		}
		lex := append(append(append(append(append(corpus.LexGreedy(), corpus.LexModes()...), corpus.LexNonGreedy()...), corpus.LexNonGreedyOverlap()...), corpus.LexAccount()...), corpus.LexNumbering()...)
		lex = append(lex, corpus.LexExotic()...)
		if n, _ := fmt.Sscanf(rp.Item, "RL-%d-%d", &seed, &idx); n == 2 && idx < 5000 {
			lex = append(lex, corpus.RandomLexers(int64(seed), idx+1)...)
		}
		for _, l := range lex {
			if l.Name == rp.Item {
				ls = append(ls, l)
			}
		}
		for _, cu := range append(corpus.TypeLayouts(), corpus.BoundsLayouts()...) {
			if cu.Name == rp.Item {
				cs = append(cs, cu)
			}
		}
		items, gerr := c.Generate(gs, ls, cs...)
		if gerr != nil || len(items) == 0 {
			fmt.Println("cannot regenerate item", rp.Item, gerr)
			return 2
		}
		if !(items[0].ExitOK && items[0].Files) {
			fmt.Println("lox does not generate item", rp.Item, "on this tree:", items[0].Stderr)
			return 2
		}
		if rp.Func == "H_ParserTable" {
			dumps, derr := c.DumpTables(items[:1])
			if derr != nil || dumps[items[0].Name] == nil {
				fmt.Println("cannot dump the constructed table of", rp.Item, derr)
				return 2
			}
			os.WriteFile(filepath.Join(items[0].Dir, "zz_table_h.go"), []byte(tableHarnessGo(items[0].Pkg, dumps[items[0].Name])), 0644)
		}
		h.Race = strings.HasPrefix(rp.Harness, "parse.Twin") || strings.HasPrefix(rp.Harness, "lex.Twin")
		rr, err = c.ReplayGen(items[0], h, cex)
	}
	if err != nil {
		fmt.Println("replay:", err)
		return 2
	}
	fmt.Printf("harness %s, assertion %s, inputs %v\nnative verdict: %s\n", rp.Harness, rp.Assert, rp.Inputs, rr.Verdict)
	if rr.Confirms {
		fmt.Println("REPRODUCED")
		return 1
	}
	fmt.Println("not reproduced on this tree")
	return 0
}
