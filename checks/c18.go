package checks

import (
	"fmt"

	"verif/corpus"
)

// C18: generated parsers and lexers are safe to run concurrently (by
// reduction to disjoint memory footprints, not by exploring schedules).
func C18(c *Ctx) int {
	o := &Outcome{}
	var gs []*corpus.Grammar
	for _, g := range corpus.ParserLanguage() {
		switch g.Name {
		case "P-expr", "P-opt", "P-listopt", "P-filter":
			gs = append(gs, g)
		}
	}
	for _, g := range corpus.WithBounds(corpus.ParserLanguage()) {
		if g.Name == "P-bounds+B" || g.Name == "P-nestsugar+B" {
			gs = append(gs, g)
		}
	}
	for _, g := range corpus.ParserRecovery() {
		switch g.Name {
		case "E-list", "E-block", "E-merged-eof":
			gs = append(gs, g)
		}
	}
	var specs []*corpus.LexSpec
	for _, s := range corpus.LexGreedy() {
		if s.Name == "L-kw1" || s.Name == "L-ws" {
			specs = append(specs, s)
		}
	}
	for _, s := range corpus.LexModes() {
		if s.Name == "L-mode2" || s.Name == "L-acc" {
			specs = append(specs, s)
		}
	}
	items, err := c.Generate(gs, specs)
	if err != nil {
		fmt.Println("generate:", err)
		return 2
	}
	prog, err := c.LoadGen()
	if err != nil {
		fmt.Println("load:", err)
		return 2
	}
	maxN, maxB := 3, 2
	if c.Thorough() {
		maxN, maxB = 5, 3
	}
	byName := map[string]*GenItem{}
	for _, it := range items {
		if !(it.ExitOK && it.Files) {
			o.Inconclusive = append(o.Inconclusive, "item "+it.Name+" was not generated")
			continue
		}
		var hs []Harness
		if it.Grammar != nil {
			for n := 1; n <= maxN; n++ {
				hs = append(hs, Harness{Name: fmt.Sprintf("parse.Twin[%s,n=%d]", it.Name, n), Func: "H_Twin", Params: map[string]int{"n": n}, Quiet: true, Race: true,
					Reach: []string{"twin"}, Bounds: fmt.Sprintf("two instances: one on an arbitrary token sequence of length %d (ERROR tokens included), one on a fixed sequence", n)})
			}
		} else {
			for nb := 1; nb <= maxB; nb++ {
				hs = append(hs, Harness{Name: fmt.Sprintf("lex.Twin[%s,bytes=%d]", it.Name, nb), Func: "H_Twin", Params: map[string]int{"bytes": nb}, Quiet: true, Race: true,
					Reach: []string{"twin"}, Bounds: fmt.Sprintf("two instances: one on %d arbitrary bytes, one on fixed bytes", nb)})
			}
		}
		for _, h := range hs {
			r, err := c.RunGenHarness(prog, it, h)
			if err != nil {
				o.Broken = append(o.Broken, err.Error())
				continue
			}
			o.Add(r)
			byName[r.H.Name] = it
			c.HandleGenCex(o, it, r)
		}
	}
	c.ValidateSamples(o, byName, 4)
	o.Assumptions = []string{"interleavings are not explored: two instances run one after the other inside one symbolic execution under a memory monitor (every cell read/written, appended to, copied, every map touched); disjoint write/any footprints plus no writes to cells reachable from package-level variables imply, by the Go memory model, that every interleaving is race-free and equivalent to the sequential run — a meta-argument, not machine-checked",
		"counterexamples are replayed natively with the two instances on two goroutines under go test -race"}
	o.Outside = []string{"more than two instances; instances of different grammars (distinct packages have distinct package-level state by construction; only the shared reference driver could couple them)"}
	return c.Finish(o)
}
