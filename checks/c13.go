package checks

import "fmt"

// C13: deterministic output (map-order dimension only).
func C13(c *Ctx) int {
	o := &Outcome{}
	prog, err := c.LoadRepo()
	if err != nil {
		fmt.Println("load:", err)
		return 2
	}
	ops := 3
	if c.Thorough() {
		ops = 5
	}
	hs := []Harness{}
	for n := 1; n <= ops; n++ {
		h := Harness{Name: fmt.Sprintf("stablemap.Order[ops=%d]", n), Pkg: "internal/base/stablemap", Func: "H_StableMap", Params: map[string]int{"ops": n},
			Bounds: fmt.Sprintf("%d arbitrary operations (Put/Remove/Clear) with arbitrary keys in 0..2, arbitrary built-in map order", n)}
		if n >= 2 {
			h.Reach = []string{"two-keys"}
		}
		hs = append(hs, h)
	}
	for shape := 0; shape < 3; shape++ {
		hs = append(hs, Harness{Name: fmt.Sprintf("mode.BuildOrder[shape=%d]", shape), Pkg: "internal/lexergen/mode", Func: "H_BuildOrder", Params: map[string]int{"shape": shape},
			Reach: []string{"built"}, MaxPaths: 20000, Bounds: "one concrete rule set; every range over a built-in map inside ModeBuilder.Build iterates in every order (all n! for n<=4 entries, rotations and reversals above)"})
	}
	hs = append(hs, Harness{Name: "lr1.ConstructOrder", Pkg: "internal/parsergen/lr1", Func: "H_ConstructOrder", Reach: []string{"built"}, MaxPaths: 20000,
		Bounds: "expression grammar; every range over a built-in map inside ConstructLALR iterates in every order (all n! for n<=4, rotations/reversals above)"})
	for _, h := range hs {
		h.MapOrder = true
		r, err := c.RunHarness(prog, h)
		if err != nil {
			o.Broken = append(o.Broken, err.Error())
			continue
		}
		o.Add(r)
		c.HandleRepoCex(o, r, nil)
	}
	c.ValidateSamples(o, nil, 4)
	o.Assumptions = []string{"the iteration order of Go's built-in maps is an explicit oracle of the engine: a fresh solver variable per range statement, resolved by case split",
		"a map-order witness cannot be forced natively; counterexamples are replayed by running the native harness (which only confirms when Go happens to pick a differing order)"}
	o.Outside = []string{"stale files from earlier generations, other working directories, other processes (file-system histories have no encoding here)",
		"map ranges in codegen that need go/types objects (assign_actions.go, parse_lox.go, emit_lexer.go modes collector): read, all followed by sorting or order-insensitive use, but not executed"}
	return c.Finish(o)
}
