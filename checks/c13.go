package checks

import (
	"bytes"
	"fmt"
	"os"
	"os/exec"
	"path/filepath"
	"strings"
	"time"

	"verif/corpus"
)

// C13: deterministic output (map-order dimension only).
func C13(c *Ctx) int {
	o := &Outcome{}
	prog, err := c.LoadRepo()
	if err != nil {
		fmt.Println("load:", err)
		return 2
	}
	ops := 3
	if c.Thorough() {
		ops = 5
	}
	hs := []Harness{}
	for n := 1; n <= ops; n++ {
		h := Harness{Name: fmt.Sprintf("stablemap.Order[ops=%d]", n), Pkg: "internal/base/stablemap", Func: "H_StableMap", Params: map[string]int{"ops": n},
			Bounds: fmt.Sprintf("%d arbitrary operations (Put/Remove/Clear) with arbitrary keys in 0..2, arbitrary built-in map order", n)}
		if n >= 2 {
			h.Reach = []string{"two-keys"}
		}
		hs = append(hs, h)
	}
	for shape := 0; shape < 3; shape++ {
		hs = append(hs, Harness{Name: fmt.Sprintf("mode.BuildOrder[shape=%d]", shape), Pkg: "internal/lexergen/mode", Func: "H_BuildOrder", Params: map[string]int{"shape": shape},
			Reach: []string{"built"}, MaxPaths: 20000, Bounds: "one concrete rule set; every range over a built-in map inside ModeBuilder.Build iterates in every order (all n! for n<=4 entries, rotations and reversals above)"})
	}
	hs = append(hs, Harness{Name: "lr1.ConstructOrder", Pkg: "internal/parsergen/lr1", Func: "H_ConstructOrder", Reach: []string{"built"}, MaxPaths: 20000,
		Bounds: "expression grammar; every range over a built-in map inside ConstructLALR iterates in every order (all n! for n<=4, rotations/reversals above)"})
	hs = append(hs, Harness{Name: "codegen.EmitLexerOrder", Pkg: "internal/codegen", Func: "H_EmitLexerOrder", Reach: []string{"emitted"}, MaxPaths: 20000,
		Bounds: "a specification with four modes through the real ParseLox, then EmitLexer twice: every range over a built-in map inside EmitLexer and the closures it hands to the template engine (modes, mode_table) iterates in every order (all n! for n<=4); the template engine itself is stubbed"})
	for _, h := range hs {
		h.MapOrder = true
		r, err := c.RunHarness(prog, h)
		if err != nil {
			o.Broken = append(o.Broken, err.Error())
			continue
		}
		o.Add(r)
		c.HandleRepoCex(o, r, nil)
	}
	c.ValidateSamples(o, nil, 4)
	c.historyByProduct(o)
	o.Assumptions = []string{"the iteration order of Go's built-in maps is an explicit oracle of the engine: a fresh solver variable per range statement, resolved by case split",
		"a map-order witness cannot be forced natively; counterexamples are replayed by running the native harness (which only confirms when Go happens to pick a differing order)"}
	o.Outside = []string{"stale files from earlier generations, other working directories, other processes (file-system histories have no encoding here)",
		"map ranges in codegen that need go/types objects (assign_actions.go, parse_lox.go, emit_lexer.go modes collector): read, all followed by sorting or order-insensitive use, but not executed"}
	return c.Finish(o)
}

// historyByProduct is a concrete by-product of the corpus driver, NOT decided
// by the solver (file-system histories have no encoding in the engine): the
// real lox generates a larger grammar into a directory, then a smaller one
// into the same directory, and the three files must equal those of the smaller
// grammar generated into a fresh directory; the same twice in a row and from
// another working directory.
func (c *Ctx) historyByProduct(o *Outcome) {
	lox, err := c.BuildLox()
	if err != nil {
		o.Broken = append(o.Broken, err.Error())
		return
	}
	big := corpus.MustGrammar("H-big", "e = e PLUS t | e MINUS t | t ; t = t MUL f | f ; f = LP e RP | NUM | ID LP e RP")
	small := corpus.MustGrammar("H-small", "e = e PLUS t | t ; t = NUM")
	base := filepath.Join(c.Scratch, "hist")
	gen := func(dir string, g *corpus.Grammar, cwd string) (map[string][]byte, error) {
		os.MkdirAll(dir, 0755)
		os.WriteFile(filepath.Join(dir, "go.mod"), []byte("module hist\n\ngo 1.23\n"), 0644)
		os.WriteFile(filepath.Join(dir, "item.lox"), []byte(g.Lox()), 0644)
		os.WriteFile(filepath.Join(dir, "parser.go"), []byte(g.ParserGo("hist")), 0644)
		cmd := exec.Command(lox, dir)
		cmd.Dir = cwd
		cmd.Env = goEnv()
		if out, err := runTimeout(cmd, 2*time.Minute); err != nil {
			return nil, fmt.Errorf("lox failed: %v: %s", err, out)
		}
		files := map[string][]byte{}
		for _, f := range []string{"base.gen.go", "lexer.gen.go", "parser.gen.go"} {
			data, err := os.ReadFile(filepath.Join(dir, f))
			if err != nil {
				return nil, err
			}
			files[f] = data
		}
		return files, nil
	}
	fresh, err := gen(filepath.Join(base, "fresh"), small, c.Scratch)
	if err != nil {
		o.Broken = append(o.Broken, "history by-product: "+err.Error())
		return
	}
	reused := filepath.Join(base, "reused")
	if _, err := gen(reused, big, c.Scratch); err != nil {
		o.Broken = append(o.Broken, "history by-product: "+err.Error())
		return
	}
	after, err1 := gen(reused, small, c.Scratch)
	again, err2 := gen(reused, small, "/")
	res := map[string]any{}
	for name, pair := range map[string][2]map[string][]byte{"after-a-larger-grammar": {fresh, after}, "second-run-other-cwd": {fresh, again}} {
		same := true
		if pair[1] == nil {
			same = false
		}
		for f, data := range pair[0] {
			if pair[1] == nil || !bytes.Equal(data, pair[1][f]) {
				same = false
			}
		}
		res[name] = same
		if !same {
			o.Violations = append(o.Violations, fmt.Sprintf("VIOLATION property=C13 replay=%s", c.SaveReplay("history-"+name,
				map[string]any{"what": "generated files differ from a fresh generation (" + name + "); concrete by-product, not solver-decided",
					"errors": fmt.Sprint(err1, err2), "small": small.Lox(), "big": big.Lox()})))
		}
	}
	// repeated runs in fresh processes (Go randomises map iteration per
	// process): a lexer with seven modes and a parser with several rules, twelve
	// generations each; files and --report text must be identical every time
	specs := []*corpus.LexSpec{
		corpus.MustLexSpec("H-modes7", "A = 'a' @push_mode(M1)\nB = 'b' @push_mode(M4)\n@mode M1 {\nC = 'c' @push_mode(M2)\nC1 = 'x' @pop_mode\n}\n@mode M2 {\nD = 'd' @push_mode(M3)\nD1 = 'x' @pop_mode\n}\n@mode M3 {\nE = 'e' @pop_mode\n}\n@mode M4 {\nF = 'f' @push_mode(M5)\nF1 = 'x' @pop_mode\n}\n@mode M5 {\nG = 'g' @push_mode(M6)\nG1 = 'x' @pop_mode\n}\n@mode M6 {\nH = 'h' @pop_mode\n}"),
	}
	for _, l := range corpus.LexModes() {
		if l.Name == "L-mode3" || l.Name == "L-mode-empty" {
			specs = append(specs, l)
		}
	}
	repeat := map[string]any{}
	mod, err := c.GenModule(true) // a module that requires loxlex (the lexer items' parser.go uses simplelexer.Token)
	if err != nil {
		o.Broken = append(o.Broken, "repeat by-product: "+err.Error())
		return
	}
	for _, l := range specs {
		dir := filepath.Join(mod, "rep_"+pkgName(l.Name))
		os.MkdirAll(dir, 0755)
		defer os.RemoveAll(dir)
		for i, text := range l.LoxFiles() {
			os.WriteFile(filepath.Join(dir, fmt.Sprintf("item%d.lox", i)), []byte(text), 0644)
		}
		os.WriteFile(filepath.Join(dir, "parser.go"), []byte(l.ParserGo("hist")), 0644)
		var first map[string][]byte
		differs := ""
		for run := 0; run < 12 && differs == ""; run++ {
			cmd := exec.Command(lox, "--report", dir)
			cmd.Dir = c.Scratch
			cmd.Env = goEnv()
			out, err := runTimeout(cmd, 2*time.Minute)
			if err != nil {
				tail := string(out)
				if len(tail) > 400 {
					tail = tail[len(tail)-400:]
				}
				o.Broken = append(o.Broken, fmt.Sprintf("repeat by-product: lox failed on %s: %v: %s", l.Name, err, tail))
				break
			}
			files := map[string][]byte{"--report": out}
			for _, f := range []string{"base.gen.go", "lexer.gen.go", "parser.gen.go"} {
				files[f], _ = os.ReadFile(filepath.Join(dir, f))
			}
			if first == nil {
				first = files
				continue
			}
			for f, data := range first {
				if !bytes.Equal(data, files[f]) {
					differs = fmt.Sprintf("%s differs in run %d", f, run+1)
				}
			}
		}
		repeat[l.Name] = differs == ""
		if differs != "" {
			o.Violations = append(o.Violations, fmt.Sprintf("VIOLATION property=C13 replay=%s", c.SaveReplay("repeated-runs-"+l.Name,
				map[string]any{"what": "repeated generations of one specification give different output (" + differs + "); concrete by-product, not solver-decided",
					"item": l.Name, "spec": strings.Join(l.LoxFiles(), "\n---\n")})))
		}
	}
	if o.Extra == nil {
		o.Extra = map[string]any{}
	}
	o.Extra["history_by_product_not_solver_decided"] = res
	o.Extra["repeated_runs_by_product_not_solver_decided"] = repeat
}
