package checks

import (
	"fmt"
	"os"
	"strconv"

	"verif/corpus"
)

// C12: the generator never crashes (front end; Go-package dimension outside).
func C12(c *Ctx) int {
	o := &Outcome{}
	prog, err := c.LoadRepo()
	if err != nil {
		fmt.Println("load:", err)
		return 2
	}
	hs := []Harness{
		{Name: "fe.Concrete", Pkg: "internal/codegen", Func: "H_FrontEndConcrete", Reach: []string{"accepted"}, Bounds: "one fixed specification (engine smoke test)"},
	}
	nTpl := 26
	for t := 0; t < nTpl; t++ {
		if v := os.Getenv("VERIF_TPL"); v != "" {
			if n, _ := strconv.Atoi(v); n != t {
				continue
			}
		}
		holes := 2
		if c.Thorough() {
			holes = 3
		}
		hs = append(hs, Harness{Name: fmt.Sprintf("fe.Holes[tpl=%d,holes<=%d]", t, holes), Pkg: "internal/codegen", Func: "H_Holes",
			Params: map[string]int{"tpl": t, "holes": holes, "emit": 1}, Reach: []string{"rejected"}, Quiet: true,
			Bounds: fmt.Sprintf("template %d with up to %d holes, each an arbitrary byte (any value, invalid UTF-8 included); accepted specifications go on into EmitLexer and the closures it hands to the template engine", t, holes)})
	}
	for t := 0; t < 3; t++ {
		hs = append(hs, Harness{Name: fmt.Sprintf("fe.HolesTwoFiles[tpl=%d]", t), Pkg: "internal/codegen", Func: "H_HolesTwoFiles",
			Params: map[string]int{"tpl": t}, Reach: []string{"rejected", "accepted"}, Quiet: true,
			Bounds: "one arbitrary byte in the second file of a two-file specification"})
	}
	for t := 0; t < 5; t++ {
		hs = append(hs, Harness{Name: fmt.Sprintf("fe.HexHoles[tpl=%d]", t), Pkg: "internal/codegen", Func: "H_HexHoles",
			Params: map[string]int{"tpl": t}, Quiet: true, Bounds: "\\x, \\u and \\U escapes in a literal / in a class with arbitrary hexadecimal digits in the holes"})
	}
	digits := []int{1, 2, 3, 19, 20}
	for _, d := range digits {
		hs = append(hs, Harness{Name: fmt.Sprintf("fe.Digits[%d]", d), Pkg: "internal/codegen", Func: "H_Digits",
			Params: map[string]int{"digits": d}, Quiet: true, Bounds: fmt.Sprintf("@left(n) with n any string of %d decimal digits", d)})
	}
	for _, h := range hs {
		r, err := c.RunHarness(prog, h)
		if err != nil {
			o.Broken = append(o.Broken, err.Error())
			continue
		}
		o.Add(r)
		c.HandleRepoCex(o, r, nil)
	}
	c.ValidateSamples(o, nil, 6)
	c.crashByProduct(o)
	o.Assumptions = []string{"the real ParseLox (parser.Parse with the augmented lexer and every on_* action, ast.Analyze with its four passes, ModeBuilder.Build, NFAToDFA, ConstructLALR) is executed from its SSA on in-memory files (os.ReadFile / filepath.Glob are served from a virtual file system)",
		"holes are arbitrary bytes; everything outside the holes is the fixed template"}
	o.Outside = []string{"Go packages that are missing, empty or ill-typed, template rendering, go/format and partial output on disk (behind go list, reflection and I/O: not encodable)", "templates and hole positions not in the catalogue"}
	return c.Finish(o)
}

// crashByProduct runs the real lox binary on every corpus item of every
// family and reports generator crashes (panic, hang, exit 0 without output).
// Concrete by-product of the corpus driver, not decided by the solver.
func (c *Ctx) crashByProduct(o *Outcome) {
	var gs []*corpus.Grammar
	gs = append(gs, corpus.ParserLanguageAll(false)...)
	gs = append(gs, corpus.ParserPrecedence()...)
	gs = append(gs, corpus.ParserRecovery()...)
	var ls []*corpus.LexSpec
	ls = append(ls, corpus.LexGreedy()...)
	ls = append(ls, corpus.LexModes()...)
	ls = append(ls, corpus.LexNonGreedy()...)
	ls = append(ls, corpus.LexNonGreedyOverlap()...)
	ls = append(ls, corpus.LexAccount()...)
	ls = append(ls, corpus.LexExotic()...)
	ls = append(ls, corpus.LexNumbering()...)
	ls = append(ls, corpus.MustLexSpec("X-allaccept", "A = 'a'*"))
	ls = append(ls, corpus.MustLexSpec("X-stringmode", "Q = '\"' @push_mode(Str)\n@mode Str {\nSE = '\"' @pop_mode\nTX = ~[\"]*\n}"))
	ls = append(ls, corpus.MustLexSpec("X-onechar", "A = ."))
	items, err := c.Generate(gs, ls, corpus.RejectedLayouts()...)
	if err != nil {
		o.Broken = append(o.Broken, "crash by-product: "+err.Error())
		return
	}
	crashed := []string{}
	for _, it := range items {
		if it.Crashed {
			crashed = append(crashed, it.Name)
			o.Violations = append(o.Violations, fmt.Sprintf("VIOLATION property=C12 replay=%s", c.SaveReplay("generator-crash-"+it.Name,
				map[string]any{"item": it.Name, "what": "lox crashed, hung or exited 0 without writing all files (concrete by-product of the corpus driver, not solver-decided)", "output": firstN(it.Stderr, 2000)})))
		}
	}
	if o.Extra == nil {
		o.Extra = map[string]any{}
	}
	o.Extra["corpus_items_run_through_lox_not_solver_decided"] = len(items)
	o.Extra["corpus_items_crashing_lox"] = crashed
}
