package checks

import (
	"fmt"
	"os"
	"strconv"
)

// C12: the generator never crashes (front end; Go-package dimension outside).
func C12(c *Ctx) int {
	o := &Outcome{}
	prog, err := c.LoadRepo()
	if err != nil {
		fmt.Println("load:", err)
		return 2
	}
	hs := []Harness{
		{Name: "fe.Concrete", Pkg: "internal/codegen", Func: "H_FrontEndConcrete", Reach: []string{"accepted"}, Bounds: "one fixed specification (engine smoke test)"},
	}
	nTpl := 26
	for t := 0; t < nTpl; t++ {
		if v := os.Getenv("VERIF_TPL"); v != "" {
			if n, _ := strconv.Atoi(v); n != t {
				continue
			}
		}
		holes := 2
		if c.Thorough() {
			holes = 3
		}
		hs = append(hs, Harness{Name: fmt.Sprintf("fe.Holes[tpl=%d,holes<=%d]", t, holes), Pkg: "internal/codegen", Func: "H_Holes",
			Params: map[string]int{"tpl": t, "holes": holes}, Reach: []string{"rejected"}, Quiet: true,
			Bounds: fmt.Sprintf("template %d with up to %d holes, each an arbitrary byte (any value, invalid UTF-8 included)", t, holes)})
	}
	for t := 0; t < 3; t++ {
		hs = append(hs, Harness{Name: fmt.Sprintf("fe.HolesTwoFiles[tpl=%d]", t), Pkg: "internal/codegen", Func: "H_HolesTwoFiles",
			Params: map[string]int{"tpl": t}, Reach: []string{"rejected", "accepted"}, Quiet: true,
			Bounds: "one arbitrary byte in the second file of a two-file specification"})
	}
	for t := 0; t < 5; t++ {
		hs = append(hs, Harness{Name: fmt.Sprintf("fe.HexHoles[tpl=%d]", t), Pkg: "internal/codegen", Func: "H_HexHoles",
			Params: map[string]int{"tpl": t}, Quiet: true, Bounds: "\\x, \\u and \\U escapes in a literal / in a class with arbitrary hexadecimal digits in the holes"})
	}
	digits := []int{1, 2, 3, 19, 20}
	for _, d := range digits {
		hs = append(hs, Harness{Name: fmt.Sprintf("fe.Digits[%d]", d), Pkg: "internal/codegen", Func: "H_Digits",
			Params: map[string]int{"digits": d}, Quiet: true, Bounds: fmt.Sprintf("@left(n) with n any string of %d decimal digits", d)})
	}
	for _, h := range hs {
		r, err := c.RunHarness(prog, h)
		if err != nil {
			o.Broken = append(o.Broken, err.Error())
			continue
		}
		o.Add(r)
		c.HandleRepoCex(o, r, nil)
	}
	c.ValidateSamples(o, nil, 6)
	o.Assumptions = []string{"the real ParseLox (parser.Parse with the augmented lexer and every on_* action, ast.Analyze with its four passes, ModeBuilder.Build, NFAToDFA, ConstructLALR) is executed from its SSA on in-memory files (os.ReadFile / filepath.Glob are served from a virtual file system)",
		"holes are arbitrary bytes; everything outside the holes is the fixed template"}
	o.Outside = []string{"Go packages that are missing, empty or ill-typed, template rendering, go/format and partial output on disk (behind go list, reflection and I/O: not encodable)", "templates and hole positions not in the catalogue"}
	return c.Finish(o)
}
