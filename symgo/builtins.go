package symgo

import (
	"fmt"
	"go/types"
	"unicode/utf8"

	"golang.org/x/tools/go/ssa"
)

func decodeRuneInString(s string) (rune, int) { return utf8.DecodeRuneInString(s) }

func (in *Interp) builtin(fn *ssa.Builtin, args []Value, caller *frame) Value {
	switch fn.Name() {
	case "append":
		if len(args) == 1 {
			return args[0]
		}
		dst := args[0].(Slice)
		var add []Value
		switch s := args[1].(type) {
		case Slice:
			add = s.A
		case string, SymStr:
			for _, c := range strCells(s) {
				add = append(add, c)
			}
		default:
			panic(fmt.Sprintf("append: %T", s))
		}
		if len(add) == 0 {
			return dst
		}
		n := len(dst.A)
		if in.mon != nil {
			for i := range add {
				in.mon.read(&add[i])
			}
		}
		// Go reuses the backing array when capacity allows
		if n+len(add) <= cap(dst.A) {
			out := dst.A[:n+len(add)]
			for i, v := range add {
				out[n+i] = copyVal(v)
				if in.mon != nil {
					in.mon.write(&out[n+i])
				}
			}
			return Slice{A: out}
		}
		if in.mon != nil {
			for i := 0; i < n; i++ {
				in.mon.read(&dst.A[i])
			}
		}
		newcap := cap(dst.A) * 2
		if newcap < n+len(add) {
			newcap = n + len(add)
		}
		out := make([]Value, n+len(add), newcap)
		for i := 0; i < n; i++ {
			out[i] = copyVal(dst.A[i])
		}
		for i, v := range add {
			out[n+i] = copyVal(v)
		}
		return Slice{A: out}
	case "copy":
		dst := args[0].(Slice)
		var src []Value
		switch s := args[1].(type) {
		case Slice:
			src = s.A
		case string, SymStr:
			for _, c := range strCells(s) {
				src = append(src, c)
			}
		}
		n := len(dst.A)
		if len(src) < n {
			n = len(src)
		}
		// handle overlap like memmove
		tmp := make([]Value, n)
		for i := 0; i < n; i++ {
			tmp[i] = copyVal(src[i])
		}
		for i := 0; i < n; i++ {
			if in.mon != nil {
				in.mon.read(&src[i])
				in.mon.write(&dst.A[i])
			}
			storeInto(&dst.A[i], tmp[i])
		}
		return mkInt(64, uint64(n))
	case "len":
		switch x := args[0].(type) {
		case string:
			return mkInt(64, uint64(len(x)))
		case SymStr:
			return mkInt(64, uint64(len(x)))
		case Slice:
			return mkInt(64, uint64(len(x.A)))
		case Array:
			return mkInt(64, uint64(len(x)))
		case *Value:
			if x == nil {
				// len of nil *array is the array length; ssa folds that as a constant
				return mkInt(64, 0)
			}
			return mkInt(64, uint64(len((*x).(Array))))
		case *Map:
			if x == nil {
				return mkInt(64, 0)
			}
			return mkInt(64, uint64(x.n))
		}
		panic(fmt.Sprintf("len: %T", args[0]))
	case "cap":
		switch x := args[0].(type) {
		case Slice:
			return mkInt(64, uint64(cap(x.A)))
		case Array:
			return mkInt(64, uint64(len(x)))
		case *Value:
			return mkInt(64, uint64(len((*x).(Array))))
		}
		panic(fmt.Sprintf("cap: %T", args[0]))
	case "delete":
		if in.mon != nil && args[0].(*Map) != nil {
			in.mon.write(args[0].(*Map))
		}
		in.mapDelete(args[0].(*Map), args[1])
		return nil
	case "clear":
		switch x := args[0].(type) {
		case *Map:
			if x != nil {
				x.keys, x.vals, x.alive, x.sym, x.n = nil, nil, nil, false, 0
				x.index = map[any]int{}
			}
		case Slice:
			if len(x.A) > 0 {
				st, ok := fn.Type().(*types.Signature).Params().At(0).Type().Underlying().(*types.Slice)
				if !ok {
					panic(unsupported("clear(slice) of unknown element type"))
				}
				for i := range x.A {
					storeInto(&x.A[i], zero(st.Elem()))
				}
			}
		}
		return nil
	case "min", "max":
		panic(unsupported("builtin " + fn.Name()))
	case "print", "println":
		return nil
	case "panic":
		in.goPanic(args[0])
	case "recover":
		return in.doRecover(caller)
	case "ssa:wrapnilchk":
		recv := args[0]
		if p, ok := recv.(*Value); ok && p == nil {
			in.goPanic(runtimeError(fmt.Sprintf("value method %v.%v called using nil pointer", describe(args[1]), describe(args[2]))))
		}
		return recv
	}
	panic(unsupported("builtin " + fn.Name()))
}

func (in *Interp) doRecover(caller *frame) Value {
	// recover() is effective only when called directly by a deferred function
	// while the frame that deferred it is panicking.
	if caller != nil && caller.caller != nil && caller.caller.panicking {
		fr := caller.caller
		fr.panicking = false
		gp := fr.panicVal
		fr.panicVal = nil
		return gp.V
	}
	return Iface{}
}

var _ = types.Typ
