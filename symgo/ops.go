package symgo

import (
	"fmt"
	"go/constant"
	"go/token"
	"go/types"
	"math"
	"unicode/utf8"

	"golang.org/x/tools/go/ssa"
)

// constValue converts an SSA constant.
func constValue(c *ssa.Const) Value {
	if c.Value == nil {
		return zero(c.Type())
	}
	t := c.Type().Underlying()
	if b, ok := t.(*types.Basic); ok {
		if w, signed, ok := intWidth(b); ok {
			if signed {
				return mkInt(w, uint64(c.Int64()))
			}
			return mkInt(w, c.Uint64())
		}
		switch b.Kind() {
		case types.Bool, types.UntypedBool:
			return mkBool(constant.BoolVal(c.Value))
		case types.String, types.UntypedString:
			if c.Value.Kind() == constant.String {
				return constant.StringVal(c.Value)
			}
			return string(rune(c.Int64()))
		case types.Float32, types.Float64, types.UntypedFloat:
			return c.Float64()
		case types.Complex64, types.Complex128:
			return c.Complex128()
		}
	}
	if _, ok := t.(*types.Interface); ok {
		return Iface{}
	}
	if _, ok := c.Type().(*types.TypeParam); ok {
		panic("const of type param")
	}
	panic(fmt.Sprintf("constValue: %v of type %v", c, c.Type()))
}

var binToOp = map[token.Token]Op{
	token.ADD: OpAdd, token.SUB: OpSub, token.MUL: OpMul,
	token.AND: OpAnd, token.OR: OpOr, token.XOR: OpXor,
}

// intBin evaluates an integer binary operation whose operands have the given
// width and signedness. Shifts are handled by intShift.
func (in *Interp) intBin(op token.Token, w uint8, signed bool, x, y Int) Value {
	tt := in.TT
	switch op {
	case token.ADD, token.SUB, token.MUL, token.AND, token.OR, token.XOR:
		if x.T == nil && y.T == nil {
			return mkInt(w, evalBin(binToOp[op], w, x.C, y.C))
		}
		return symInt(tt.Bin(binToOp[op], tt.IntTerm(x), tt.IntTerm(y)))
	case token.AND_NOT:
		if x.T == nil && y.T == nil {
			return mkInt(w, x.C&^y.C)
		}
		return symInt(tt.Bin(OpAnd, tt.IntTerm(x), tt.BvNot(tt.IntTerm(y))))
	case token.QUO, token.REM:
		if y.T == nil {
			if y.C == 0 {
				in.goPanic(runtimeError("integer divide by zero"))
			}
		} else {
			if in.decide(tt.Cmp(OpEq, y.T, tt.Const(w, 0))) {
				in.goPanic(runtimeError("integer divide by zero"))
			}
		}
		var o Op
		switch {
		case op == token.QUO && signed:
			o = OpSDiv
		case op == token.QUO:
			o = OpUDiv
		case signed:
			o = OpSRem
		default:
			o = OpURem
		}
		if x.T == nil && y.T == nil {
			return mkInt(w, evalBin(o, w, x.C, y.C))
		}
		return symInt(tt.Bin(o, tt.IntTerm(x), tt.IntTerm(y)))
	case token.EQL, token.NEQ, token.LSS, token.LEQ, token.GTR, token.GEQ:
		return in.intCmp(op, w, signed, x, y)
	}
	panic(fmt.Sprintf("intBin: %v", op))
}

func (in *Interp) intCmp(op token.Token, w uint8, signed bool, x, y Int) Bool {
	tt := in.TT
	lt, le := OpULt, OpULe
	if signed {
		lt, le = OpSLt, OpSLe
	}
	if x.T == nil && y.T == nil {
		switch op {
		case token.EQL:
			return mkBool(x.C == y.C)
		case token.NEQ:
			return mkBool(x.C != y.C)
		case token.LSS:
			return mkBool(evalCmp(lt, w, x.C, y.C))
		case token.LEQ:
			return mkBool(evalCmp(le, w, x.C, y.C))
		case token.GTR:
			return mkBool(evalCmp(lt, w, y.C, x.C))
		case token.GEQ:
			return mkBool(evalCmp(le, w, y.C, x.C))
		}
	}
	a, b := tt.IntTerm(x), tt.IntTerm(y)
	switch op {
	case token.EQL:
		return symBool(tt.Cmp(OpEq, a, b))
	case token.NEQ:
		return symBool(tt.Not(tt.Cmp(OpEq, a, b)))
	case token.LSS:
		return symBool(tt.Cmp(lt, a, b))
	case token.LEQ:
		return symBool(tt.Cmp(le, a, b))
	case token.GTR:
		return symBool(tt.Cmp(lt, b, a))
	case token.GEQ:
		return symBool(tt.Cmp(le, b, a))
	}
	panic("intCmp")
}

// intShift implements x << y and x >> y with Go semantics.
func (in *Interp) intShift(op token.Token, w uint8, signed bool, x Int, y Int, ySigned bool) Value {
	tt := in.TT
	if ySigned {
		// negative shift count panics
		if y.T == nil {
			if y.Signed() < 0 {
				in.goPanic(runtimeError("negative shift amount"))
			}
		} else if in.decide(tt.Cmp(OpSLt, y.T, tt.Const(y.W, 0))) {
			in.goPanic(runtimeError("negative shift amount"))
		}
	}
	var o Op
	switch {
	case op == token.SHL:
		o = OpShl
	case signed:
		o = OpAShr
	default:
		o = OpLShr
	}
	if x.T == nil && y.T == nil {
		return mkInt(w, evalBin(o, w, x.C, y.C))
	}
	// bring the count to width w, saturating
	cnt := tt.IntTerm(y)
	if y.W > w {
		big := tt.Cmp(OpULe, tt.Const(y.W, uint64(w)), cnt)
		cnt = tt.Ite(big, tt.Const(w, uint64(w)), tt.Extract(cnt, w-1, 0))
	} else if y.W < w {
		cnt = tt.ZExt(cnt, w)
	}
	return symInt(tt.Bin(o, tt.IntTerm(x), cnt))
}

// binop evaluates an SSA BinOp.
func (in *Interp) binop(instr *ssa.BinOp, x, y Value) Value {
	op := instr.Op
	xt := instr.X.Type()
	switch op {
	case token.SHL, token.SHR:
		w, signed, ok := intWidth(xt)
		if !ok {
			panic(fmt.Sprintf("shift of %v", xt))
		}
		_, ysigned, _ := intWidth(instr.Y.Type())
		return in.intShift(op, w, signed, x.(Int), y.(Int), ysigned)
	}
	switch x := x.(type) {
	case Int:
		w, signed, ok := intWidth(xt)
		if !ok {
			w, signed = x.W, true
		}
		return in.intBin(op, w, signed, x, y.(Int))
	case Bool:
		yb := y.(Bool)
		tt := in.TT
		switch op {
		case token.EQL:
			if x.T == nil && yb.T == nil {
				return mkBool(x.C == yb.C)
			}
			return symBool(tt.Iff(tt.BoolTerm(x), tt.BoolTerm(yb)))
		case token.NEQ:
			if x.T == nil && yb.T == nil {
				return mkBool(x.C != yb.C)
			}
			return symBool(tt.Not(tt.Iff(tt.BoolTerm(x), tt.BoolTerm(yb))))
		case token.AND, token.LAND:
			return in.boolAnd(x, yb)
		case token.OR, token.LOR:
			return in.boolOr(x, yb)
		}
		panic(fmt.Sprintf("bool binop %v", op))
	case float64:
		yf := y.(float64)
		switch op {
		case token.ADD:
			return x + yf
		case token.SUB:
			return x - yf
		case token.MUL:
			return x * yf
		case token.QUO:
			return x / yf
		case token.EQL:
			return mkBool(x == yf)
		case token.NEQ:
			return mkBool(x != yf)
		case token.LSS:
			return mkBool(x < yf)
		case token.LEQ:
			return mkBool(x <= yf)
		case token.GTR:
			return mkBool(x > yf)
		case token.GEQ:
			return mkBool(x >= yf)
		}
		panic(fmt.Sprintf("float binop %v", op))
	case string, SymStr:
		return in.strBin(op, x, y)
	}
	switch op {
	case token.EQL:
		return in.eqValue(x, y)
	case token.NEQ:
		return in.boolNot(in.eqValue(x, y))
	}
	panic(fmt.Sprintf("binop %v on %T", op, x))
}

func (in *Interp) boolNot(b Bool) Bool {
	if b.T == nil {
		return mkBool(!b.C)
	}
	return symBool(in.TT.Not(b.T))
}

func (in *Interp) boolAnd(a, b Bool) Bool {
	if a.T == nil && b.T == nil {
		return mkBool(a.C && b.C)
	}
	return symBool(in.TT.And(in.TT.BoolTerm(a), in.TT.BoolTerm(b)))
}

func (in *Interp) boolOr(a, b Bool) Bool {
	if a.T == nil && b.T == nil {
		return mkBool(a.C || b.C)
	}
	return symBool(in.TT.Or(in.TT.BoolTerm(a), in.TT.BoolTerm(b)))
}

func (in *Interp) strBin(op token.Token, x, y Value) Value {
	xs, xok := x.(string)
	ys, yok := y.(string)
	if xok && yok {
		switch op {
		case token.ADD:
			return xs + ys
		case token.EQL:
			return mkBool(xs == ys)
		case token.NEQ:
			return mkBool(xs != ys)
		case token.LSS:
			return mkBool(xs < ys)
		case token.LEQ:
			return mkBool(xs <= ys)
		case token.GTR:
			return mkBool(xs > ys)
		case token.GEQ:
			return mkBool(xs >= ys)
		}
		panic(fmt.Sprintf("string binop %v", op))
	}
	a, b := strCells(x), strCells(y)
	switch op {
	case token.ADD:
		r := make(SymStr, 0, len(a)+len(b))
		r = append(r, a...)
		r = append(r, b...)
		return normStr(r)
	case token.EQL:
		return in.strEq(a, b)
	case token.NEQ:
		return in.boolNot(in.strEq(a, b))
	case token.LSS:
		return in.strLess(a, b, false)
	case token.LEQ:
		return in.strLess(a, b, true)
	case token.GTR:
		return in.strLess(b, a, false)
	case token.GEQ:
		return in.strLess(b, a, true)
	}
	panic(fmt.Sprintf("symstr binop %v", op))
}

func (in *Interp) strEq(a, b SymStr) Bool {
	if len(a) != len(b) {
		return mkBool(false)
	}
	tt := in.TT
	r := tt.True
	for i := range a {
		if a[i].T == nil && b[i].T == nil {
			if a[i].C != b[i].C {
				return mkBool(false)
			}
			continue
		}
		r = tt.And(r, tt.Cmp(OpEq, tt.IntTerm(a[i]), tt.IntTerm(b[i])))
	}
	return symBool(r)
}

// strLess: lexicographic a < b (or <= when orEq).
func (in *Interp) strLess(a, b SymStr, orEq bool) Bool {
	tt := in.TT
	n := len(a)
	if len(b) < n {
		n = len(b)
	}
	// result if all first n bytes are equal
	var tail *Term
	if orEq {
		tail = tt.Bool(len(a) <= len(b))
	} else {
		tail = tt.Bool(len(a) < len(b))
	}
	r := tail
	for i := n - 1; i >= 0; i-- {
		x, y := tt.IntTerm(a[i]), tt.IntTerm(b[i])
		r = tt.Ite(tt.Cmp(OpULt, x, y), tt.True, tt.Ite(tt.Cmp(OpEq, x, y), r, tt.False))
	}
	return symBool(r)
}

// eqValue is Go's == on arbitrary comparable values.
func (in *Interp) eqValue(x, y Value) Bool {
	switch x := x.(type) {
	case Int:
		return in.intCmp(token.EQL, x.W, false, x, y.(Int))
	case Bool:
		yb := y.(Bool)
		if x.T == nil && yb.T == nil {
			return mkBool(x.C == yb.C)
		}
		return symBool(in.TT.Iff(in.TT.BoolTerm(x), in.TT.BoolTerm(yb)))
	case float64:
		return mkBool(x == y.(float64))
	case complex128:
		return mkBool(x == y.(complex128))
	case string:
		if ys, ok := y.(string); ok {
			return mkBool(x == ys)
		}
		return in.strEq(strCells(x), strCells(y))
	case SymStr:
		return in.strEq(x, strCells(y))
	case *Value:
		yp, ok := y.(*Value)
		if !ok {
			return mkBool(false)
		}
		return mkBool(x == yp)
	case *Map:
		return mkBool(x == y.(*Map))
	case *Native:
		yn, ok := y.(*Native)
		return mkBool(ok && x == yn)
	case *ssa.Function:
		yf, ok := y.(*ssa.Function)
		return mkBool(ok && x == yf)
	case *Closure:
		if yf, ok := y.(*ssa.Function); ok && yf == nil {
			return mkBool(false)
		}
		panic("comparing closures")
	case nil:
		return mkBool(y == nil)
	case Slice:
		// only comparison with nil is legal
		ys := y.(Slice)
		return mkBool(x.A == nil && ys.A == nil)
	case Struct:
		ys := y.(Struct)
		r := mkBool(true)
		for i := range x {
			r = in.boolAnd(r, in.eqValue(x[i], ys[i]))
			if r.T == nil && !r.C {
				return r
			}
		}
		return r
	case Array:
		ys := y.(Array)
		r := mkBool(true)
		for i := range x {
			r = in.boolAnd(r, in.eqValue(x[i], ys[i]))
			if r.T == nil && !r.C {
				return r
			}
		}
		return r
	case Iface:
		yi := y.(Iface)
		if x.T == nil || yi.T == nil {
			return mkBool(x.T == nil && yi.T == nil)
		}
		if !types.Identical(x.T, yi.T) {
			return mkBool(false)
		}
		return in.eqValue(x.V, yi.V)
	case SymRef:
		panic(unsupported("comparison of symbolic reference"))
	}
	panic(fmt.Sprintf("eqValue: %T", x))
}

func (in *Interp) unop(instr *ssa.UnOp, x Value) Value {
	switch instr.Op {
	case token.MUL: // load
		return in.load(x)
	case token.NOT:
		return in.boolNot(x.(Bool))
	case token.SUB:
		switch x := x.(type) {
		case Int:
			if x.T == nil {
				return mkInt(x.W, -x.C)
			}
			return symInt(in.TT.Neg(x.T))
		case float64:
			return -x
		}
	case token.XOR:
		xi := x.(Int)
		if xi.T == nil {
			return mkInt(xi.W, ^xi.C)
		}
		return symInt(in.TT.BvNot(xi.T))
	case token.ARROW:
		panic(unsupported("channel receive"))
	}
	panic(fmt.Sprintf("unop %v on %T", instr.Op, x))
}

// load reads through a pointer-like value.
func (in *Interp) load(p Value) Value {
	switch p := p.(type) {
	case *Value:
		if p == nil {
			in.goPanic(runtimeError("invalid memory address or nil pointer dereference"))
		}
		if in.mon != nil {
			in.mon.read(p)
		}
		return copyVal(*p)
	case SymRef:
		return in.symLoad(p)
	}
	panic(fmt.Sprintf("load from %T", p))
}

func (in *Interp) store(p Value, v Value) {
	switch p := p.(type) {
	case *Value:
		if p == nil {
			in.goPanic(runtimeError("invalid memory address or nil pointer dereference"))
		}
		if in.mon != nil {
			in.mon.write(p)
		}
		storeInto(p, v)
		return
	case SymRef:
		in.symStore(p, v)
		return
	}
	panic(fmt.Sprintf("store to %T", p))
}

// symLoad: ite chain over the cells.
func (in *Interp) symLoad(r SymRef) Value {
	tt := in.TT
	if in.mon != nil {
		for k := range r.Cells {
			in.mon.read(&r.Cells[k])
		}
	}
	n := len(r.Cells)
	res := copyVal(r.Cells[n-1])
	for k := n - 2; k >= 0; k-- {
		c := tt.Cmp(OpEq, r.Idx, tt.Const(64, uint64(k)))
		res = in.iteValue(c, r.Cells[k], res)
	}
	return res
}

func (in *Interp) symStore(r SymRef, v Value) {
	tt := in.TT
	if in.mon != nil {
		for k := range r.Cells {
			in.mon.write(&r.Cells[k])
		}
	}
	for k := range r.Cells {
		c := tt.Cmp(OpEq, r.Idx, tt.Const(64, uint64(k)))
		storeInto(&r.Cells[k], in.iteValue(c, v, r.Cells[k]))
	}
}

// iteValue builds "c ? a : b" for values whose leaves are scalars.
func (in *Interp) iteValue(c *Term, a, b Value) Value {
	tt := in.TT
	if c.IsConst() {
		if c.C != 0 {
			return copyVal(a)
		}
		return copyVal(b)
	}
	switch a := a.(type) {
	case Int:
		bi := b.(Int)
		if a.T == nil && bi.T == nil && a.C == bi.C {
			return a
		}
		return symInt(tt.Ite(c, tt.IntTerm(a), tt.IntTerm(bi)))
	case Bool:
		bb := b.(Bool)
		return symBool(tt.Ite(c, tt.BoolTerm(a), tt.BoolTerm(bb)))
	case Struct:
		bs := b.(Struct)
		r := make(Struct, len(a))
		for i := range a {
			r[i] = in.iteValue(c, a[i], bs[i])
		}
		return r
	case Array:
		bs := b.(Array)
		r := make(Array, len(a))
		for i := range a {
			r[i] = in.iteValue(c, a[i], bs[i])
		}
		return r
	case string, SymStr:
		x, y := strCells(a), strCells(b)
		if len(x) == len(y) {
			r := make(SymStr, len(x))
			for i := range x {
				r[i] = in.iteValue(c, x[i], y[i]).(Int)
			}
			return normStr(r)
		}
	case *Value:
		if bp, ok := b.(*Value); ok && bp == a {
			return a
		}
	}
	// not mergeable: fork
	if in.decide(c) {
		return copyVal(a)
	}
	return copyVal(b)
}

// scalarLeaves reports whether every leaf of the value is a scalar that
// iteValue can merge without forking.
func scalarLeaves(v Value) bool {
	switch v := v.(type) {
	case Int, Bool:
		return true
	case Struct:
		for _, x := range v {
			if !scalarLeaves(x) {
				return false
			}
		}
		return true
	case Array:
		for _, x := range v {
			if !scalarLeaves(x) {
				return false
			}
		}
		return true
	}
	return false
}

// convert implements ssa.Convert / ChangeType between basic types.
func (in *Interp) convert(src, dst types.Type, x Value) Value {
	ud := dst.Underlying()
	us := src.Underlying()
	switch x := x.(type) {
	case Int:
		if dw, _, ok := intWidth(ud); ok {
			_, ssigned, _ := intWidth(us)
			if x.T == nil {
				if ssigned {
					return mkInt(dw, uint64(sext(x.C, x.W)))
				}
				return mkInt(dw, x.C)
			}
			if dw <= x.W {
				return symInt(in.TT.Extract(x.T, dw-1, 0))
			}
			if ssigned {
				return symInt(in.TT.SExt(x.T, dw))
			}
			return symInt(in.TT.ZExt(x.T, dw))
		}
		if b, ok := ud.(*types.Basic); ok {
			switch b.Kind() {
			case types.String:
				// string(rune)
				if x.T != nil {
					return in.runeToString(x, us)
				}
				_, ssigned, _ := intWidth(us)
				var r rune
				if ssigned {
					v := sext(x.C, x.W)
					if v < 0 || v > math.MaxInt32 {
						r = utf8.RuneError
					} else {
						r = rune(v)
					}
				} else if x.C > math.MaxInt32 {
					r = utf8.RuneError
				} else {
					r = rune(x.C)
				}
				return string(r)
			case types.Float32, types.Float64:
				if x.T != nil {
					panic(unsupported("symbolic int to float"))
				}
				_, ssigned, _ := intWidth(us)
				if ssigned {
					return float64(sext(x.C, x.W))
				}
				return float64(x.C)
			case types.UnsafePointer:
				panic(unsupported("int to unsafe.Pointer"))
			}
		}
	case float64:
		if dw, dsigned, ok := intWidth(ud); ok {
			if dsigned {
				return mkInt(dw, uint64(int64(x)))
			}
			return mkInt(dw, uint64(x))
		}
		if b, ok := ud.(*types.Basic); ok {
			switch b.Kind() {
			case types.Float32:
				return float64(float32(x))
			case types.Float64:
				return x
			}
		}
	case string, SymStr:
		switch ud := ud.(type) {
		case *types.Basic:
			if ud.Kind() == types.String {
				return x
			}
		case *types.Slice:
			eb, _ := ud.Elem().Underlying().(*types.Basic)
			if eb != nil && eb.Kind() == types.Uint8 {
				cells := strCells(x)
				a := make([]Value, len(cells))
				for i, c := range cells {
					a[i] = c
				}
				return Slice{A: a}
			}
			if eb != nil && eb.Kind() == types.Int32 {
				s, ok := x.(string)
				if !ok {
					if c, ok2 := x.(SymStr).Concrete(); ok2 {
						s = c
					} else {
						panic(unsupported("[]rune(symbolic string)"))
					}
				}
				rs := []rune(s)
				a := make([]Value, len(rs))
				for i, r := range rs {
					a[i] = mkInt(32, uint64(r))
				}
				return Slice{A: a}
			}
		}
	case Slice:
		if b, ok := ud.(*types.Basic); ok && b.Kind() == types.String {
			st := us.(*types.Slice)
			eb := st.Elem().Underlying().(*types.Basic)
			if eb.Kind() == types.Uint8 {
				cells := make(SymStr, len(x.A))
				for i, c := range x.A {
					cells[i] = c.(Int)
				}
				return normStr(cells)
			}
			if eb.Kind() == types.Int32 {
				rs := make([]rune, len(x.A))
				for i, c := range x.A {
					ci := c.(Int)
					if ci.T != nil {
						panic(unsupported("string([]rune) with symbolic runes"))
					}
					rs[i] = rune(ci.C)
				}
				return string(rs)
			}
		}
	case *Value:
		// pointer <-> unsafe.Pointer conversions keep the cell
		return x
	}
	panic(fmt.Sprintf("convert %v -> %v (%T)", src, dst, x))
}

// runeToString converts a symbolic rune to a string by splitting on the
// UTF-8 width class (the result needs a concrete length).
func (in *Interp) runeToString(x Int, src types.Type) Value {
	tt := in.TT
	r := x.T
	if x.W < 32 {
		_, signed, _ := intWidth(src.Underlying())
		if signed {
			r = tt.SExt(r, 32)
		} else {
			r = tt.ZExt(r, 32)
		}
	} else if x.W > 32 {
		// values outside int32 range become RuneError
		_, signed, _ := intWidth(src.Underlying())
		var out *Term
		if signed {
			out = tt.Or(tt.Cmp(OpSLt, r, tt.Const(64, 0)), tt.Cmp(OpSLt, tt.Const(64, 0x10FFFF), r))
		} else {
			out = tt.Cmp(OpULt, tt.Const(64, 0x10FFFF), r)
		}
		if in.decide(out) {
			return string(utf8.RuneError)
		}
		r = tt.Extract(r, 31, 0)
	}
	c := func(v uint64) *Term { return tt.Const(32, v) }
	b8 := func(t *Term) Int { return symInt(tt.Extract(t, 7, 0)) }
	or := func(t *Term, v uint64) *Term { return tt.Bin(OpOr, t, c(v)) }
	and := func(t *Term, v uint64) *Term { return tt.Bin(OpAnd, t, c(v)) }
	shr := func(t *Term, n uint64) *Term { return tt.Bin(OpLShr, t, c(n)) }
	switch {
	case in.decide(tt.Cmp(OpULe, r, c(0x7f))):
		return SymStr{b8(r)}
	case in.decide(tt.Cmp(OpULe, r, c(0x7ff))):
		return SymStr{b8(or(shr(r, 6), 0xC0)), b8(or(and(r, 0x3f), 0x80))}
	case in.decide(tt.Or(tt.Cmp(OpULt, c(0x10FFFF), r),
		tt.And(tt.Cmp(OpULe, c(0xD800), r), tt.Cmp(OpULe, r, c(0xDFFF))))):
		return string(utf8.RuneError)
	case in.decide(tt.Cmp(OpULe, r, c(0xffff))):
		return SymStr{b8(or(shr(r, 12), 0xE0)), b8(or(and(shr(r, 6), 0x3f), 0x80)), b8(or(and(r, 0x3f), 0x80))}
	default:
		return SymStr{b8(or(shr(r, 18), 0xF0)), b8(or(and(shr(r, 12), 0x3f), 0x80)),
			b8(or(and(shr(r, 6), 0x3f), 0x80)), b8(or(and(r, 0x3f), 0x80))}
	}
}
