package symgo

import (
	"fmt"
	"os"
	"strings"

	"golang.org/x/tools/go/packages"
	"golang.org/x/tools/go/ssa"
	"golang.org/x/tools/go/ssa/ssautil"
)

// LoadConfig describes what to load.
type LoadConfig struct {
	Dir      string            // module directory (e.g. /repo)
	Patterns []string          // package patterns
	Overlay  map[string][]byte // path → content
	Tests    bool
	Env      []string
}

// Load type-checks the packages and builds SSA with generics instantiated.
func Load(cfg LoadConfig) (*Program, []*packages.Package, error) {
	pc := &packages.Config{
		Mode:    packages.LoadAllSyntax,
		Dir:     cfg.Dir,
		Overlay: cfg.Overlay,
		Tests:   cfg.Tests,
		Env:     append(append(os.Environ(), "GOFLAGS=-mod=mod", "GOPROXY=off", "GOSUMDB=off", "GOTOOLCHAIN=local"), cfg.Env...),
	}
	pkgs, err := packages.Load(pc, cfg.Patterns...)
	if err != nil {
		return nil, nil, err
	}
	var errs []string
	packages.Visit(pkgs, nil, func(p *packages.Package) {
		for _, e := range p.Errors {
			errs = append(errs, e.Error())
		}
	})
	if len(errs) > 0 {
		return nil, pkgs, fmt.Errorf("load errors:\n%s", strings.Join(errs, "\n"))
	}
	prog, _ := ssautil.AllPackages(pkgs, ssa.InstantiateGenerics)
	prog.Build()
	p := &Program{Prog: prog, Pkgs: map[string]*ssa.Package{}, fnInfos: map[*ssa.Function]*fnInfo{}, Std: DefaultStd}
	for _, sp := range prog.AllPackages() {
		p.Pkgs[sp.Pkg.Path()] = sp
	}
	return p, pkgs, nil
}
