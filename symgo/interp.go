package symgo

import (
	"fmt"
	"go/token"
	"go/types"
	"os"
	"strings"
	"sync"

	"golang.org/x/tools/go/ssa"
)

// Program is the shared, read-only part: SSA program plus per-function slot
// tables.
type Program struct {
	Prog    *ssa.Program
	Pkgs    map[string]*ssa.Package // by import path
	infoMu  sync.Mutex
	fnInfos map[*ssa.Function]*fnInfo
	Std     map[string]bool // import paths whose init is run
}

type fnInfo struct {
	slot   map[ssa.Value]int
	nslots int
}

func (p *Program) info(fn *ssa.Function) *fnInfo {
	p.infoMu.Lock()
	defer p.infoMu.Unlock()
	if fi, ok := p.fnInfos[fn]; ok {
		return fi
	}
	fi := &fnInfo{slot: map[ssa.Value]int{}}
	add := func(v ssa.Value) {
		fi.slot[v] = fi.nslots
		fi.nslots++
	}
	for _, p := range fn.Params {
		add(p)
	}
	for _, fv := range fn.FreeVars {
		add(fv)
	}
	for _, b := range fn.Blocks {
		for _, instr := range b.Instrs {
			if v, ok := instr.(ssa.Value); ok {
				add(v)
			}
		}
	}
	p.fnInfos[fn] = fi
	return fi
}

// ---- path-ending signals (Go panics that interpreted code cannot recover) ----

type pathEnd struct {
	Status string // "unsupported", "unwind", "pruned", "exit"
	Msg    string
}

func unsupported(msg string) pathEnd { return pathEnd{"unsupported", msg} }

// goPanicVal is an interpreted Go panic in flight.
type goPanicVal struct {
	V     Value  // the panic value (an Iface)
	Msg   string // rendering
	Stack string
}

var traceFn = os.Getenv("SYMGO_TRACEFN") != ""

type runtimeError string

type internalErr struct {
	Err   any
	Stack string
}

// Interp is one worker's interpreter state.
type Interp struct {
	P        *Program
	TT       *Table
	Ex       *pathCtx // nil in concrete mode
	globals  map[*ssa.Global]*Value
	inited   map[*ssa.Package]bool
	consts   map[*ssa.Const]Value
	Steps    int64
	MaxSteps int64
	depth    int
	mon      *monitor
	inInit   bool
	dirty    bool // a global was stored to outside init
	Trace    bool
	stack    []*frame
	Observed []string
	// hooks for vrt intrinsics
	OnObserve func(string)
	implCache map[[2]types.Type]bool
	Stubs     map[string]int // external models actually used (for evidence)
	FnsRun    map[*ssa.Function]bool
	MapOrder  func(n int) []int // optional permutation oracle for map range
	Params    map[string]int
	mapOrderMode int
	permCount    int
	permBySize   map[int][]int
	nativeCells  map[any]*Value
	mons         [2]*monitor
	vfs          map[string]Slice
	vfsOrder     []string
	hostVars     map[string]Value // values handed to the template engine (jet.VarMap.Set), by name
	globalCells  map[any]bool
	NoModel   map[string]bool // external models switched off (validation harnesses)
}

func NewInterp(p *Program, tt *Table) *Interp {
	return &Interp{
		P: p, TT: tt,
		globals:   map[*ssa.Global]*Value{},
		inited:    map[*ssa.Package]bool{},
		consts:    map[*ssa.Const]Value{},
		MaxSteps:  50_000_000,
		implCache: map[[2]types.Type]bool{},
		Stubs:     map[string]int{},
		FnsRun:    map[*ssa.Function]bool{},
	}
}

type deferred struct {
	fn   Value
	args []Value
}

type frame struct {
	fn        *ssa.Function
	info      *fnInfo
	locals    []Value
	block     *ssa.BasicBlock
	prev      *ssa.BasicBlock
	defers    []deferred
	result    Value
	panicking bool
	panicVal  *goPanicVal
	caller    *frame
}

func (in *Interp) get(fr *frame, v ssa.Value) Value {
	switch v := v.(type) {
	case *ssa.Const:
		if c, ok := in.consts[v]; ok {
			return c
		}
		c := constValue(v)
		in.consts[v] = c
		return c
	case *ssa.Global:
		return in.global(v)
	case *ssa.Function:
		return v
	case *ssa.Builtin:
		return v
	case nil:
		return nil
	}
	if i, ok := fr.info.slot[v]; ok {
		return fr.locals[i]
	}
	panic(fmt.Sprintf("get: no slot for %T %v in %v", v, v.Name(), fr.fn))
}

func (in *Interp) global(g *ssa.Global) *Value {
	if p, ok := in.globals[g]; ok {
		return p
	}
	// lazily create (package init decides contents)
	in.ensureInit(g.Pkg)
	if p, ok := in.globals[g]; ok {
		return p
	}
	p := new(Value)
	*p = zero(g.Type().(*types.Pointer).Elem())
	in.globals[g] = p
	return p
}

// ensureInit runs the package initialiser once per worker.
func (in *Interp) ensureInit(pkg *ssa.Package) {
	if pkg == nil || in.inited[pkg] {
		return
	}
	in.inited[pkg] = true
	for _, m := range pkg.Members {
		if g, ok := m.(*ssa.Global); ok {
			if _, ok := in.globals[g]; !ok {
				p := new(Value)
				*p = zero(g.Type().(*types.Pointer).Elem())
				in.globals[g] = p
			}
		}
	}
	path := pkg.Pkg.Path()
	if !in.P.runsInit(path) {
		return
	}
	initFn := pkg.Func("init")
	if initFn == nil || len(initFn.Blocks) == 0 {
		return
	}
	save := in.inInit
	in.inInit = true
	saveEx := in.Ex
	in.Ex = nil
	defer func() { in.inInit = save; in.Ex = saveEx }()
	in.call(initFn, nil, nil)
}

func (p *Program) runsInit(path string) bool {
	if p.Std[path] {
		return true
	}
	// everything that is not the standard library and not stubbed
	if strings.Contains(path, ".") || strings.HasPrefix(path, "verif") || strings.HasPrefix(path, "vgen") {
		switch {
		case strings.HasPrefix(path, "github.com/CloudyKit"),
			strings.HasPrefix(path, "golang.org/x/"),
			strings.HasPrefix(path, "github.com/google/"),
			strings.HasPrefix(path, "github.com/spf13/"),
			strings.HasPrefix(path, "gopkg.in/"):
			return false
		}
		return true
	}
	return false
}

// DefaultStd is the allow-list of standard packages interpreted from SSA.
var DefaultStd = map[string]bool{
	"unicode/utf8": true, "strconv": true, "strings": true, "bytes": true, "slices": true,
	"sort": true, "cmp": true, "container/heap": true, "encoding/binary": true,
	"math/bits": true, "errors": false, "unicode": true, "io": true, "math": true,
	"internal/bytealg": false, "unicode/utf16": true, "internal/stringslite": true,
	"iter": true, "maps": true,
}

func (in *Interp) goPanic(v interface{}) {
	switch v := v.(type) {
	case runtimeError:
		panic(&goPanicVal{V: Iface{T: types.Typ[types.String], V: "runtime error: " + string(v)}, Msg: "runtime error: " + string(v), Stack: in.stackString()})
	case Value:
		panic(&goPanicVal{V: v, Msg: in.panicString(v), Stack: in.stackString()})
	}
	panic(v)
}

func (in *Interp) panicString(v Value) string {
	if i, ok := v.(Iface); ok {
		switch x := i.V.(type) {
		case string:
			return x
		case SymStr:
			return "<symbolic string>"
		case nil:
			return "nil"
		}
		if i.T != nil {
			// error or Stringer
			for _, name := range []string{"Error", "String"} {
				if m := in.findMethod(i.T, name); m != nil && len(m.Blocks) > 0 {
					r := func() (r Value) {
						defer func() {
							if e := recover(); e != nil {
								if pe, ok := e.(pathEnd); ok {
									panic(pe)
								}
								r = fmt.Sprintf("<%s panicked>", name)
							}
						}()
						return in.call(m, []Value{i.V}, nil)
					}()
					if s, ok := r.(string); ok {
						return s
					}
				}
			}
			return fmt.Sprintf("(%s) %s", i.T, describe(i.V))
		}
	}
	return describe(v)
}

func (in *Interp) stackString() string {
	var sb strings.Builder
	for i := len(in.stack) - 1; i >= 0 && i >= len(in.stack)-12; i-- {
		fmt.Fprintf(&sb, "  %s\n", in.stack[i].fn.String())
	}
	return sb.String()
}

// call runs fn with the given arguments (free variables in env).
func (in *Interp) call(fn *ssa.Function, args []Value, env []Value) Value {
	if ext := in.external(fn); ext != nil {
		return ext(in, fn, args)
	}
	if len(fn.Blocks) == 0 {
		panic(unsupported("function without body: " + fn.String()))
	}
	if fn.Pkg != nil {
		if fn.Synthetic != "" && fn.Name() == "init" && fn.Pkg.Func("init") == fn {
			// a package initialiser called from another initialiser
			if !in.P.runsInit(fn.Pkg.Pkg.Path()) {
				in.inited[fn.Pkg] = true
				return nil
			}
			in.inited[fn.Pkg] = true
		} else if !in.inited[fn.Pkg] {
			in.ensureInit(fn.Pkg)
		}
	}
	if traceFn {
		fmt.Fprintf(os.Stderr, "%*s%s\n", in.depth%60, "", fn.String())
	}
	in.depth++
	if in.depth > 4000 {
		panic(pathEnd{"unwind", "call depth exceeded in " + fn.String()})
	}
	fi := in.P.info(fn)
	fr := &frame{fn: fn, info: fi, locals: make([]Value, fi.nslots)}
	copy(fr.locals, args)
	copy(fr.locals[len(fn.Params):], env)
	fr.block = fn.Blocks[0]
	if n := len(in.stack); n > 0 {
		fr.caller = in.stack[n-1]
	}
	in.stack = append(in.stack, fr)
	in.FnsRun[fn] = true
	defer func() {
		in.depth--
		in.stack = in.stack[:len(in.stack)-1]
	}()
	in.runFrame(fr)
	return fr.result
}

func (in *Interp) runFrame(fr *frame) {
	defer func() {
		if fr.block == nil {
			return // normal return
		}
		e := recover()
		gp, ok := e.(*goPanicVal)
		if !ok {
			// pathEnd or internal error: not recoverable by the program
			switch e.(type) {
			case pathEnd, *internalErr:
				panic(e)
			}
			panic(&internalErr{Err: e, Stack: in.stackString() + goStack()})
		}
		fr.panicking = true
		fr.panicVal = gp
		in.runDefers(fr)
		if fr.panicking {
			panic(fr.panicVal)
		}
		// recovered
		fr.block = fr.fn.Recover
		if fr.block != nil {
			in.runFrame(fr)
		} else {
			// no named results: return zero values
			fr.result = zeroResults(fr.fn)
		}
	}()
	for {
		if in.Trace {
			fmt.Fprintf(os.Stderr, ".%s\n", fr.block)
		}
	block:
		for _, instr := range fr.block.Instrs {
			in.Steps++
			if in.Steps > in.MaxSteps {
				panic(pathEnd{"unwind", fmt.Sprintf("step budget %d exceeded in %s", in.MaxSteps, fr.fn)})
			}
			if in.Trace {
				if v, ok := instr.(ssa.Value); ok {
					fmt.Fprintf(os.Stderr, "\t%s = %s\n", v.Name(), instr)
				} else {
					fmt.Fprintf(os.Stderr, "\t%s\n", instr)
				}
			}
			switch in.visit(fr, instr) {
			case kReturn:
				fr.block = nil
				return
			case kJump:
				break block
			}
		}
	}
}

func zeroResults(fn *ssa.Function) Value {
	res := fn.Signature.Results()
	switch res.Len() {
	case 0:
		return nil
	case 1:
		return zero(res.At(0).Type())
	}
	t := make(Tuple, res.Len())
	for i := range t {
		t[i] = zero(res.At(i).Type())
	}
	return t
}

func (in *Interp) runDefers(fr *frame) {
	for len(fr.defers) > 0 {
		d := fr.defers[len(fr.defers)-1]
		fr.defers = fr.defers[:len(fr.defers)-1]
		func() {
			defer func() {
				if e := recover(); e != nil {
					gp, ok := e.(*goPanicVal)
					if !ok {
						panic(e)
					}
					// a deferred call panicked: replaces the current panic
					fr.panicking = true
					fr.panicVal = gp
				}
			}()
			in.callValue(d.fn, d.args, fr)
		}()
	}
}

type cont int

const (
	kNext cont = iota
	kReturn
	kJump
)

func (in *Interp) set(fr *frame, v ssa.Value, x Value) {
	fr.locals[fr.info.slot[v]] = x
}

func (in *Interp) visit(fr *frame, instr ssa.Instruction) cont {
	switch instr := instr.(type) {
	case *ssa.DebugRef:
	case *ssa.UnOp:
		in.set(fr, instr, in.unop(instr, in.get(fr, instr.X)))
	case *ssa.BinOp:
		in.set(fr, instr, in.binop(instr, in.get(fr, instr.X), in.get(fr, instr.Y)))
	case *ssa.Call:
		fn, args := in.prepareCall(fr, &instr.Call)
		in.set(fr, instr, in.callValue(fn, args, fr))
	case *ssa.ChangeInterface:
		in.set(fr, instr, in.get(fr, instr.X))
	case *ssa.ChangeType:
		in.set(fr, instr, in.get(fr, instr.X))
	case *ssa.Convert:
		in.set(fr, instr, in.convert(instr.X.Type(), instr.Type(), in.get(fr, instr.X)))
	case *ssa.MultiConvert:
		in.set(fr, instr, in.convert(instr.X.Type(), instr.Type(), in.get(fr, instr.X)))
	case *ssa.SliceToArrayPointer:
		s := in.get(fr, instr.X).(Slice)
		n := int(instr.Type().(*types.Pointer).Elem().Underlying().(*types.Array).Len())
		if len(s.A) < n {
			in.goPanic(runtimeError("cannot convert slice to array pointer: length too short"))
		}
		if s.A == nil {
			in.set(fr, instr, (*Value)(nil))
		} else {
			// the array pointer aliases the slice cells only when it is a
			// fresh cell holding an Array sharing the backing store.
			cell := new(Value)
			*cell = Array(s.A[:n:n])
			in.set(fr, instr, cell)
		}
	case *ssa.MakeInterface:
		in.set(fr, instr, Iface{T: instr.X.Type(), V: in.get(fr, instr.X)})
	case *ssa.Extract:
		in.set(fr, instr, in.get(fr, instr.Tuple).(Tuple)[instr.Index])
	case *ssa.Slice:
		in.set(fr, instr, in.sliceOp(fr, instr))
	case *ssa.Return:
		switch len(instr.Results) {
		case 0:
		case 1:
			fr.result = in.get(fr, instr.Results[0])
		default:
			res := make(Tuple, len(instr.Results))
			for i, r := range instr.Results {
				res[i] = in.get(fr, r)
			}
			fr.result = res
		}
		return kReturn
	case *ssa.RunDefers:
		in.runDefers(fr)
		if fr.panicking {
			panic(fr.panicVal)
		}
	case *ssa.Panic:
		in.goPanic(in.get(fr, instr.X))
	case *ssa.Send:
		panic(unsupported("channel send"))
	case *ssa.Store:
		if g, ok := instr.Addr.(*ssa.Global); ok && !in.inInit {
			_ = g
			in.dirty = true
		}
		in.store(in.get(fr, instr.Addr), in.get(fr, instr.Val))
	case *ssa.If:
		succ := 1
		if in.truth(in.get(fr, instr.Cond).(Bool)) {
			succ = 0
		}
		fr.prev, fr.block = fr.block, fr.block.Succs[succ]
		in.phis(fr)
		return kJump
	case *ssa.Jump:
		fr.prev, fr.block = fr.block, fr.block.Succs[0]
		in.phis(fr)
		return kJump
	case *ssa.Defer:
		fn, args := in.prepareCall(fr, &instr.Call)
		fr.defers = append(fr.defers, deferred{fn, args})
	case *ssa.Go:
		panic(unsupported("go statement"))
	case *ssa.MakeChan:
		panic(unsupported("make(chan)"))
	case *ssa.Select:
		panic(unsupported("select"))
	case *ssa.Alloc:
		cell := new(Value)
		*cell = zero(instr.Type().(*types.Pointer).Elem())
		in.set(fr, instr, cell)
	case *ssa.MakeSlice:
		n := in.concInt(in.get(fr, instr.Len).(Int), instr.Len.Type())
		c := in.concInt(in.get(fr, instr.Cap).(Int), instr.Cap.Type())
		if n < 0 || c < n || c > 1<<24 {
			in.goPanic(runtimeError("makeslice: len out of range"))
		}
		et := instr.Type().Underlying().(*types.Slice).Elem()
		a := make([]Value, n, c)
		for i := range a {
			a[i] = zero(et)
		}
		in.set(fr, instr, Slice{A: a})
	case *ssa.MakeMap:
		in.set(fr, instr, newMap(instr.Type().Underlying().(*types.Map).Key()))
	case *ssa.Range:
		in.set(fr, instr, in.rangeIter(fr, instr))
	case *ssa.Next:
		in.set(fr, instr, in.get(fr, instr.Iter).(iterator).next(in))
	case *ssa.FieldAddr:
		p := in.get(fr, instr.X)
		pv, ok := p.(*Value)
		if !ok {
			panic(fmt.Sprintf("FieldAddr on %T", p))
		}
		if pv == nil {
			in.goPanic(runtimeError("invalid memory address or nil pointer dereference"))
		}
		in.set(fr, instr, &(*pv).(Struct)[instr.Field])
	case *ssa.Field:
		in.set(fr, instr, copyVal(in.get(fr, instr.X).(Struct)[instr.Field]))
	case *ssa.IndexAddr:
		in.set(fr, instr, in.indexAddr(fr, instr))
	case *ssa.Index:
		in.set(fr, instr, in.index(fr, instr))
	case *ssa.Lookup:
		in.set(fr, instr, in.lookup(fr, instr))
	case *ssa.MapUpdate:
		m := in.get(fr, instr.Map).(*Map)
		if m == nil {
			in.goPanic(runtimeError("assignment to entry in nil map"))
		}
		if in.mon != nil {
			in.mon.write(m)
		}
		in.mapPut(m, in.get(fr, instr.Key), in.get(fr, instr.Value))
	case *ssa.TypeAssert:
		in.set(fr, instr, in.typeAssert(instr, in.get(fr, instr.X).(Iface)))
	case *ssa.MakeClosure:
		env := make([]Value, len(instr.Bindings))
		for i, b := range instr.Bindings {
			env[i] = in.get(fr, b)
		}
		in.set(fr, instr, &Closure{Fn: instr.Fn.(*ssa.Function), Env: env})
	case *ssa.Phi:
		// handled at block entry
	default:
		panic(fmt.Sprintf("unexpected instruction %T", instr))
	}
	return kNext
}

// phis evaluates the phi nodes of the block just entered, simultaneously.
func (in *Interp) phis(fr *frame) {
	b := fr.block
	if len(b.Instrs) == 0 {
		return
	}
	if _, ok := b.Instrs[0].(*ssa.Phi); !ok {
		return
	}
	idx := -1
	for i, p := range b.Preds {
		if p == fr.prev {
			idx = i
			break
		}
	}
	var vals [8]Value
	tmp := vals[:0]
	for _, instr := range b.Instrs {
		phi, ok := instr.(*ssa.Phi)
		if !ok {
			break
		}
		tmp = append(tmp, in.get(fr, phi.Edges[idx]))
	}
	for i, v := range tmp {
		in.set(fr, b.Instrs[i].(*ssa.Phi), v)
	}
}

// truth resolves a Boolean to a concrete decision.
func (in *Interp) truth(b Bool) bool {
	if b.T == nil {
		return b.C
	}
	return in.decide(b.T)
}

// concInt makes an integer concrete (case split when symbolic).
func (in *Interp) concInt(i Int, t types.Type) int64 {
	_, signed, _ := intWidth(t)
	if i.T != nil {
		v := in.pickValue(i.T)
		i = mkInt(i.W, v)
	}
	if signed {
		return sext(i.C, i.W)
	}
	return int64(i.C)
}

func (in *Interp) prepareCall(fr *frame, call *ssa.CallCommon) (Value, []Value) {
	v := in.get(fr, call.Value)
	var fn Value
	var args []Value
	if call.Method == nil {
		fn = v
	} else {
		recv := v.(Iface)
		if recv.T == nil {
			in.goPanic(runtimeError("invalid memory address or nil pointer dereference (method call on nil interface)"))
		}
		m := in.P.Prog.LookupMethod(recv.T, call.Method.Pkg(), call.Method.Name())
		if m == nil {
			panic(fmt.Sprintf("method %s not found on %v", call.Method.Name(), recv.T))
		}
		fn = m
		args = append(args, recv.V)
	}
	for _, a := range call.Args {
		args = append(args, in.get(fr, a))
	}
	return fn, args
}

func (in *Interp) callValue(fn Value, args []Value, caller *frame) Value {
	switch fn := fn.(type) {
	case *ssa.Function:
		if fn == nil {
			in.goPanic(runtimeError("invalid memory address or nil pointer dereference (nil func)"))
		}
		return in.call(fn, args, nil)
	case *Closure:
		return in.call(fn.Fn, args, fn.Env)
	case *ssa.Builtin:
		return in.builtin(fn, args, caller)
	}
	panic(fmt.Sprintf("callValue: %T", fn))
}

// ---- indexing ----

func (in *Interp) checkIndex(idx Int, t types.Type, n int) (int, *Term) {
	_, signed, _ := intWidth(t)
	if idx.T == nil {
		var v int64
		if signed {
			v = sext(idx.C, idx.W)
		} else {
			v = int64(idx.C)
			if idx.C > 1<<62 {
				v = -1
			}
		}
		if v < 0 || v >= int64(n) {
			in.goPanic(runtimeError(fmt.Sprintf("index out of range [%d] with length %d", v, n)))
		}
		return int(v), nil
	}
	tt := in.TT
	// widen to 64
	t64 := idx.T
	if idx.W < 64 {
		if signed {
			t64 = tt.SExt(t64, 64)
		} else {
			t64 = tt.ZExt(t64, 64)
		}
	}
	inb := tt.Cmp(OpULt, t64, tt.Const(64, uint64(n)))
	if !in.decide(inb) {
		in.goPanic(runtimeError(fmt.Sprintf("index out of range [symbolic] with length %d", n)))
	}
	return -1, t64
}

func (in *Interp) cellsRef(cells []Value, idx Int, t types.Type) Value {
	k, sym := in.checkIndex(idx, t, len(cells))
	if sym == nil {
		return &cells[k]
	}
	if len(cells) == 1 {
		return &cells[0]
	}
	ok := len(cells) <= 256
	if ok {
		for _, c := range cells {
			if !scalarLeaves(c) {
				ok = false
				break
			}
		}
	}
	if ok {
		return SymRef{Cells: cells, Idx: sym}
	}
	v := in.pickValue(sym)
	return &cells[int(v)]
}

func (in *Interp) indexAddr(fr *frame, instr *ssa.IndexAddr) Value {
	x := in.get(fr, instr.X)
	idx := in.get(fr, instr.Index).(Int)
	switch x := x.(type) {
	case Slice:
		return in.cellsRef(x.A, idx, instr.Index.Type())
	case *Value:
		if x == nil {
			in.goPanic(runtimeError("invalid memory address or nil pointer dereference"))
		}
		return in.cellsRef((*x).(Array), idx, instr.Index.Type())
	}
	panic(fmt.Sprintf("IndexAddr on %T", x))
}

func (in *Interp) index(fr *frame, instr *ssa.Index) Value {
	x := in.get(fr, instr.X)
	idx := in.get(fr, instr.Index).(Int)
	switch x := x.(type) {
	case Array:
		return in.load(in.cellsRef(x, idx, instr.Index.Type()))
	case string, SymStr:
		return in.strIndex(x, idx, instr.Index.Type())
	}
	panic(fmt.Sprintf("Index on %T", x))
}

func (in *Interp) strIndex(s Value, idx Int, t types.Type) Value {
	n := strLen(s)
	k, sym := in.checkIndex(idx, t, n)
	if sym == nil {
		switch s := s.(type) {
		case string:
			return mkInt(8, uint64(s[k]))
		case SymStr:
			return s[k]
		}
	}
	cells := strCells(s)
	vals := make([]Value, len(cells))
	for i, c := range cells {
		vals[i] = c
	}
	return in.symLoad(SymRef{Cells: vals, Idx: sym})
}

func (in *Interp) lookup(fr *frame, instr *ssa.Lookup) Value {
	x := in.get(fr, instr.X)
	switch x := x.(type) {
	case string, SymStr:
		return in.strIndex(x, in.get(fr, instr.Index).(Int), instr.Index.Type())
	case *Map:
		key := in.get(fr, instr.Index)
		var v Value
		ok := false
		if in.mon != nil && x != nil {
			in.mon.read(x)
		}
		if x != nil {
			v, ok = in.mapGet(x, key)
		}
		if !ok {
			v = zero(instr.X.Type().Underlying().(*types.Map).Elem())
		} else {
			v = copyVal(v)
		}
		if instr.CommaOk {
			return Tuple{v, mkBool(ok)}
		}
		return v
	}
	panic(fmt.Sprintf("Lookup on %T", x))
}

func (in *Interp) sliceOp(fr *frame, instr *ssa.Slice) Value {
	x := in.get(fr, instr.X)
	conc := func(v ssa.Value, def int) int {
		if v == nil {
			return def
		}
		return int(in.concInt(in.get(fr, v).(Int), v.Type()))
	}
	switch x := x.(type) {
	case string, SymStr:
		n := strLen(x)
		lo, hi := conc(instr.Low, 0), conc(instr.High, n)
		if lo < 0 || hi < lo || hi > n {
			in.goPanic(runtimeError(fmt.Sprintf("slice bounds out of range [%d:%d] with length %d", lo, hi, n)))
		}
		switch x := x.(type) {
		case string:
			return x[lo:hi]
		case SymStr:
			return normStr(x[lo:hi])
		}
	case Slice:
		lo, hi := conc(instr.Low, 0), conc(instr.High, len(x.A))
		max := conc(instr.Max, cap(x.A))
		if lo < 0 || hi < lo || max < hi || max > cap(x.A) {
			in.goPanic(runtimeError(fmt.Sprintf("slice bounds out of range [%d:%d:%d] with capacity %d", lo, hi, max, cap(x.A))))
		}
		if x.A == nil {
			return Slice{}
		}
		if hi > len(x.A) {
			// expose spare capacity: make sure the cells hold zero values
			et := instr.Type().Underlying().(*types.Slice).Elem()
			full := x.A[:hi]
			for i := len(x.A); i < hi; i++ {
				if full[i] == nil {
					full[i] = zero(et)
				}
			}
		}
		return Slice{A: x.A[lo:hi:max]}
	case *Value:
		if x == nil {
			in.goPanic(runtimeError("invalid memory address or nil pointer dereference"))
		}
		a := (*x).(Array)
		lo, hi := conc(instr.Low, 0), conc(instr.High, len(a))
		max := conc(instr.Max, len(a))
		if lo < 0 || hi < lo || max < hi || max > len(a) {
			in.goPanic(runtimeError("slice bounds out of range"))
		}
		return Slice{A: []Value(a)[lo:hi:max]}
	}
	panic(fmt.Sprintf("Slice on %T", x))
}

// ---- type assertions ----

func (in *Interp) implements(t types.Type, iface *types.Interface) bool {
	k := [2]types.Type{t, iface}
	if r, ok := in.implCache[k]; ok {
		return r
	}
	r := types.Implements(t, iface)
	in.implCache[k] = r
	return r
}

func (in *Interp) typeAssert(instr *ssa.TypeAssert, x Iface) Value {
	ok := false
	var v Value
	if x.T != nil {
		if it, isIface := instr.AssertedType.Underlying().(*types.Interface); isIface {
			ok = in.implements(x.T, it)
			if ok {
				v = x
			}
		} else {
			ok = types.Identical(x.T, instr.AssertedType)
			if ok {
				v = copyVal(x.V)
			}
		}
	}
	if !ok {
		if !instr.CommaOk {
			msg := fmt.Sprintf("interface conversion: interface is %v, not %v", x.T, instr.AssertedType)
			if x.T == nil {
				msg = fmt.Sprintf("interface conversion: interface is nil, not %v", instr.AssertedType)
			}
			in.goPanic(runtimeError(msg))
		}
		v = zero(instr.AssertedType)
	}
	if instr.CommaOk {
		return Tuple{v, mkBool(ok)}
	}
	return v
}

// ---- maps ----

func (in *Interp) mapFind(m *Map, key Value) int {
	if k, ok := keyOf(key); ok && !m.sym {
		if i, ok := m.index[k]; ok {
			return i
		}
		return -1
	}
	// symbolic key or symbolic entries: scan with decisions
	for i, ek := range m.keys {
		if !m.alive[i] {
			continue
		}
		if in.truth(in.eqValue(key, ek)) {
			return i
		}
	}
	return -1
}

func (in *Interp) mapGet(m *Map, key Value) (Value, bool) {
	i := in.mapFind(m, key)
	if i < 0 {
		return nil, false
	}
	return m.vals[i], true
}

func (in *Interp) mapPut(m *Map, key, val Value) {
	i := in.mapFind(m, key)
	if i >= 0 {
		m.vals[i] = copyVal(val)
		return
	}
	k, conc := keyOf(key)
	if conc {
		m.index[k] = len(m.keys)
	} else {
		m.sym = true
	}
	m.keys = append(m.keys, copyVal(key))
	m.vals = append(m.vals, copyVal(val))
	m.alive = append(m.alive, true)
	m.n++
}

func (in *Interp) mapDelete(m *Map, key Value) {
	if m == nil {
		return
	}
	i := in.mapFind(m, key)
	if i < 0 {
		return
	}
	m.alive[i] = false
	m.n--
	if k, conc := keyOf(m.keys[i]); conc {
		delete(m.index, k)
	}
	if m.n == 0 {
		m.keys, m.vals, m.alive, m.sym = nil, nil, nil, false
	}
}

// ---- iteration ----

type iterator interface {
	next(in *Interp) Value
}

type mapIter struct {
	m     *Map
	order []int
	pos   int
}

func (it *mapIter) next(in *Interp) Value {
	for it.pos < len(it.order) {
		i := it.order[it.pos]
		it.pos++
		if i < len(it.m.alive) && it.m.alive[i] {
			return Tuple{mkBool(true), copyVal(it.m.keys[i]), copyVal(it.m.vals[i])}
		}
	}
	return Tuple{mkBool(false), nil, nil}
}

type strIter struct {
	s   Value
	pos int
}

func (it *strIter) next(in *Interp) Value {
	n := strLen(it.s)
	if it.pos >= n {
		return Tuple{mkBool(false), mkInt(64, 0), mkInt(32, 0)}
	}
	start := it.pos
	if s, ok := it.s.(string); ok {
		r, w := decodeRuneInString(s[start:])
		it.pos += w
		return Tuple{mkBool(true), mkInt(64, uint64(start)), mkInt(32, uint64(r))}
	}
	// symbolic bytes: run the real utf8.DecodeRuneInString
	fn := in.P.Pkgs["unicode/utf8"].Func("DecodeRuneInString")
	res := in.call(fn, []Value{normStr(it.s.(SymStr)[start:])}, nil).(Tuple)
	w := in.concInt(res[1].(Int), types.Typ[types.Int])
	it.pos += int(w)
	return Tuple{mkBool(true), mkInt(64, uint64(start)), res[0]}
}

func (in *Interp) rangeIter(fr *frame, instr *ssa.Range) Value {
	x := in.get(fr, instr.X)
	switch x := x.(type) {
	case string, SymStr:
		return &strIter{s: x}
	case *Map:
		it := &mapIter{m: x}
		if in.mon != nil && x != nil {
			in.mon.read(x)
		}
		if x != nil {
			for i := range x.keys {
				if x.alive[i] {
					it.order = append(it.order, i)
				}
			}
			if in.MapOrder == nil && in.mapOrderMode == 1 && in.Ex != nil {
				in.MapOrder = in.symbolicPerm
			}
			if in.MapOrder != nil && in.mapOrderMode == 1 && len(it.order) > 1 {
				perm := in.MapOrder(len(it.order))
				o2 := make([]int, len(it.order))
				for i, p := range perm {
					o2[i] = it.order[p]
				}
				it.order = o2
			}
		} else {
			it.m = newMap(nil)
		}
		return it
	}
	panic(fmt.Sprintf("Range over %T", x))
}

var _ = token.ADD

// symbolicPerm picks an arbitrary permutation of n map entries: all n! of
// them for n <= 4, the n rotations and their reversals above. The choice is a
// fresh symbolic variable per map size and path, resolved by case split; every
// range over a map of that size uses it (independent choices per range
// statement multiply into millions of paths on ConstructLALR).
func (in *Interp) symbolicPerm(n int) []int {
	if p, ok := in.permBySize[n]; ok {
		return p
	}
	p := in.symbolicPerm1(n)
	if in.permBySize == nil {
		in.permBySize = map[int][]int{}
	}
	in.permBySize[n] = p
	return p
}

func (in *Interp) symbolicPerm1(n int) []int {
	fact := 1
	full := n <= 4
	if full {
		for i := 2; i <= n; i++ {
			fact *= i
		}
	} else {
		fact = 2 * n
	}
	name := fmt.Sprintf("maporder%d", in.permCount)
	in.permCount++
	v := in.FreshInt(name, 8)
	in.Assume(symBool(in.TT.Cmp(OpULt, v.T, in.TT.Const(8, uint64(fact)))))
	k := int(in.pickValue(v.T))
	perm := make([]int, 0, n)
	if full {
		avail := make([]int, n)
		for i := range avail {
			avail[i] = i
		}
		f := fact
		for i := n; i >= 1; i-- {
			f /= i
			idx := k / f
			k %= f
			perm = append(perm, avail[idx])
			avail = append(avail[:idx], avail[idx+1:]...)
		}
		return perm
	}
	rot, rev := k%n, k >= n
	for i := 0; i < n; i++ {
		j := (i + rot) % n
		if rev {
			j = (n - 1 - i + rot) % n
		}
		perm = append(perm, j)
	}
	return perm
}
