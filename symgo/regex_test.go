package symgo

import (
	"math/rand"
	"regexp"
	"testing"
)

// The symbolic regexp model against the real package on concrete subjects
// (constant terms fold), and on symbolic subjects through term evaluation.
func TestSymRegexMatch(t *testing.T) {
	pats := []string{`^[A-Z][A-Z0-9_]*$`, `^[A-Z][A-Z0-9]*(_[A-Z][A-Z0-9]*)*$`, `^[a-z_][a-zA-Z0-9_]*$`, `^[a-z]+(_[a-z0-9]+)*$`,
		`[0-9]+`, `^a?b*c+$`, `^(ab|cd)*e$`, `(?m)^a$`, `^$`, `a|^b`, `^[A-Z]{2,3}$`, `x*`, `^([A-Z]+_?)+$`}
	alphabet := []byte("aAbBzZ09_\n\x80\xc3e")
	rng := rand.New(rand.NewSource(1))
	for _, pat := range pats {
		re := regexp.MustCompile(pat)
		for k := 0; k < 400; k++ {
			n := rng.Intn(6)
			b := make([]byte, n)
			for i := range b {
				b[i] = alphabet[rng.Intn(len(alphabet))]
			}
			tt := NewTable()
			in := &Interp{TT: tt}
			// concrete
			subj := make(SymStr, n)
			for i := range b {
				subj[i] = mkInt(8, uint64(b[i]))
			}
			got := in.symRegexMatch(pat, subj)
			want := re.Match(b)
			if got.T != nil || got.C != want {
				t.Fatalf("%q on %q: concrete model %v want %v", pat, b, got, want)
			}
			// symbolic, evaluated under the model
			m := Model{}
			for i := range b {
				v := tt.Var("b"+string(rune('0'+i)), 8)
				subj[i] = Int{T: v, W: 8}
				m[v.Name] = uint64(b[i])
			}
			got = in.symRegexMatch(pat, subj)
			var val bool
			if got.T == nil {
				val = got.C
			} else {
				val = tt.NewEval(m).Eval(got.T) != 0
			}
			if val != want {
				t.Fatalf("%q on %q: symbolic model %v want %v", pat, b, val, want)
			}
		}
	}
}
