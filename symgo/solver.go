package symgo

import (
	"bufio"
	"fmt"
	"io"
	"os"
	"os/exec"
	"strconv"
	"strings"
	"syscall"
	"time"
)

// Result of a satisfiability query.
type Result int

const (
	Unsat Result = iota
	Sat
	Unknown
)

func (r Result) String() string { return [...]string{"unsat", "sat", "unknown"}[r] }

// proc is one long-lived SMT solver process fed through stdin.
type proc struct {
	kind      string // "cvc5-int", "cvc5", "z3", "z3-new"
	timeoutMs int
	cmd       *exec.Cmd
	in        io.WriteCloser
	lines     chan string
	log       io.Writer
	queries   int
	solved    int
	restarts  int
}

func procArgv(kind string, timeoutMs int) []string {
	switch kind {
	case "z3":
		return []string{"z3", "-in", fmt.Sprintf("-t:%d", timeoutMs)}
	case "z3-new":
		return []string{"z3-new", "-in", fmt.Sprintf("-t:%d", timeoutMs)}
	case "cvc5":
		return []string{"cvc5", "--lang=smt2", fmt.Sprintf("--tlimit-per=%d", timeoutMs)}
	case "cvc5-int":
		return []string{"cvc5", "--lang=smt2", "--solve-bv-as-int=sum", fmt.Sprintf("--tlimit-per=%d", timeoutMs)}
	}
	panic("unknown solver kind " + kind)
}

func (p *proc) start() error {
	argv := procArgv(p.kind, p.timeoutMs)
	cmd := exec.Command(argv[0], argv[1:]...)
	in, err := cmd.StdinPipe()
	if err != nil {
		return err
	}
	out, err := cmd.StdoutPipe()
	if err != nil {
		return err
	}
	cmd.Stderr = cmd.Stdout
	cmd.SysProcAttr = &syscall.SysProcAttr{Pdeathsig: syscall.SIGKILL}
	if err := cmd.Start(); err != nil {
		return err
	}
	p.cmd, p.in = cmd, in
	lines := make(chan string, 64)
	p.lines = lines
	go func() {
		r := bufio.NewReaderSize(out, 1<<16)
		for {
			line, err := r.ReadString('\n')
			if line != "" {
				lines <- line
			}
			if err != nil {
				close(lines)
				return
			}
		}
	}()
	if path := os.Getenv("SYMGO_SMTLOG"); path != "" && p.log == nil {
		f, _ := os.OpenFile(fmt.Sprintf("%s.%s.%d", path, p.kind, cmd.Process.Pid), os.O_CREATE|os.O_WRONLY|os.O_TRUNC, 0644)
		p.log = f
	}
	p.send("(set-option :print-success false)\n")
	return nil
}

func (p *proc) send(text string) {
	if p.log != nil {
		io.WriteString(p.log, text)
	}
	io.WriteString(p.in, text)
}

func (p *proc) stop() {
	if p.cmd == nil {
		return
	}
	p.in.Close()
	p.cmd.Process.Kill()
	p.cmd.Wait()
	p.cmd = nil
}

func (p *proc) restart() {
	p.stop()
	p.restarts++
	p.start()
}

// readLine returns the next non-empty line, or ok=false on timeout / EOF.
func (p *proc) readLine(d time.Duration) (string, bool) {
	timer := time.NewTimer(d)
	defer timer.Stop()
	for {
		select {
		case line, ok := <-p.lines:
			if !ok {
				return "", false
			}
			line = strings.TrimSpace(line)
			if line == "" {
				continue
			}
			return line, true
		case <-timer.C:
			return "", false
		}
	}
}

func (p *proc) prelude() string {
	if strings.HasPrefix(p.kind, "cvc5") {
		return "(reset)\n(set-option :produce-models true)\n(set-logic QF_BV)\n"
	}
	return "(reset)\n"
}

func (p *proc) checkCmd() string {
	if strings.HasPrefix(p.kind, "cvc5") {
		return "(check-sat)\n"
	}
	// the lazy bit-vector core first (fast on comparison-only queries), then
	// the bit-blasting pipeline
	return "(check-sat-using (or-else (try-for smt 200) qfbv))\n"
}

// query sends one self-contained problem.
func (p *proc) query(body string, vars []*Term, wantModel bool) (Result, Model, string) {
	p.queries++
	if p.cmd == nil {
		if err := p.start(); err != nil {
			return Unknown, nil, err.Error()
		}
	}
	p.send(p.prelude() + body + p.checkCmd())
	grace := time.Duration(p.timeoutMs)*time.Millisecond + 5*time.Second
	line, ok := p.readLine(grace)
	if !ok {
		p.restart()
		return Unknown, nil, ""
	}
	switch line {
	case "sat":
		p.solved++
		if !wantModel {
			return Sat, nil, ""
		}
		m, err := p.getModel(vars, grace)
		if err != nil {
			p.restart()
			return Unknown, nil, "model: " + err.Error()
		}
		return Sat, m, ""
	case "unsat":
		p.solved++
		return Unsat, nil, ""
	case "unknown", "timeout":
		return Unknown, nil, ""
	}
	// an error: drain what follows by restarting the process
	msg := line
	p.restart()
	if strings.Contains(msg, "interrupted") || strings.Contains(msg, "timeout") || strings.Contains(msg, "resource") {
		return Unknown, nil, ""
	}
	return Unknown, nil, p.kind + " said: " + msg
}

func (p *proc) getModel(vars []*Term, grace time.Duration) (Model, error) {
	m := Model{}
	if len(vars) == 0 {
		return m, nil
	}
	var sb strings.Builder
	sb.WriteString("(get-value (")
	for _, v := range vars {
		sb.WriteString(smtName(v) + " ")
	}
	sb.WriteString("))\n")
	p.send(sb.String())
	depth := 0
	var text strings.Builder
	for {
		line, ok := p.readLine(grace)
		if !ok {
			return nil, fmt.Errorf("no model output")
		}
		text.WriteString(line + "\n")
		inBar := false
		for _, ch := range line {
			switch {
			case ch == '|':
				inBar = !inBar
			case inBar:
			case ch == '(':
				depth++
			case ch == ')':
				depth--
			}
		}
		if depth <= 0 {
			break
		}
	}
	out := text.String()
	if strings.Contains(out, "(error") {
		return nil, fmt.Errorf("%s", out)
	}
	toks := tokenize(out)
	i := 0
	for i < len(toks) {
		if toks[i] == "(" && i+1 < len(toks) && toks[i+1] != "(" {
			name := strings.Trim(toks[i+1], "|")
			i += 2
			var val uint64
			if toks[i] == "(" {
				// (_ bvN w)
				if toks[i+1] == "_" && strings.HasPrefix(toks[i+2], "bv") {
					v, err := strconv.ParseUint(toks[i+2][2:], 10, 64)
					if err != nil {
						return nil, err
					}
					val = v
				}
				for toks[i] != ")" {
					i++
				}
				i++
			} else {
				a := toks[i]
				i++
				switch {
				case a == "true":
					val = 1
				case a == "false":
					val = 0
				case strings.HasPrefix(a, "#x"):
					v, err := strconv.ParseUint(a[2:], 16, 64)
					if err != nil {
						return nil, err
					}
					val = v
				case strings.HasPrefix(a, "#b"):
					v, err := strconv.ParseUint(a[2:], 2, 64)
					if err != nil {
						return nil, err
					}
					val = v
				default:
					return nil, fmt.Errorf("model value %q", a)
				}
			}
			m[name] = val
			continue
		}
		i++
	}
	return m, nil
}

// Solver is a portfolio: each query goes to the first process; a process that
// answers unknown / times out hands the query to the next one.
type Solver struct {
	Name    string
	procs   []*proc
	tt      *Table
	Queries int
	SatN    int
	UnsatN  int
	UnkN    int
	Time    time.Duration
	Wait    time.Duration
	Errors  []string
	ByProc  map[string]int

	portfolio bool
}

// NewSolver builds a portfolio. name: "" or "portfolio" (cvc5 int-blasting
// with a short limit, then z3), or a single solver kind.
func NewSolver(tt *Table, name string, timeoutMs int) (*Solver, error) {
	s := &Solver{Name: name, tt: tt, ByProc: map[string]int{}}
	switch name {
	case "", "portfolio":
		s.Name = "portfolio(cvc5 --solve-bv-as-int=sum, cvc5, z3 5.1.0)"
		fast := 1500
		if fast > timeoutMs {
			fast = timeoutMs
		}
		// the last stage is a retry with a long limit: on a loaded machine a query
		// that normally takes milliseconds can miss every short limit
		s.procs = []*proc{{kind: "cvc5-int", timeoutMs: fast}, {kind: "cvc5", timeoutMs: timeoutMs / 2}, {kind: "z3-new", timeoutMs: timeoutMs}, {kind: "cvc5", timeoutMs: 4 * timeoutMs}}
		s.portfolio = true
	default:
		s.procs = []*proc{{kind: name, timeoutMs: timeoutMs}}
	}
	for _, p := range s.procs {
		if err := p.start(); err != nil {
			return nil, err
		}
	}
	return s, nil
}

func (s *Solver) Close() {
	for _, p := range s.procs {
		p.stop()
	}
}

// Check decides the conjunction of the literals. When sat and wantModel, the
// model over the variables in the cone of the literals is returned. Every
// query is self-contained: (reset), the definitions in the cone of the
// literals, the assertions, (check-sat).
func (s *Solver) Check(lits []*Term, wantModel bool) (Result, Model) {
	start := time.Now()
	defer func() { s.Time += time.Since(start) }()
	s.Queries++
	var sb strings.Builder
	seen := map[*Term]bool{}
	var vars []*Term
	for _, l := range lits {
		if l.IsConst() {
			if l.C == 0 {
				s.UnsatN++
				return Unsat, nil
			}
			continue
		}
		s.tt.defineCone(&sb, l, seen, &vars)
	}
	for _, l := range lits {
		if l.IsConst() {
			continue
		}
		sb.WriteString("(assert " + smtName(l) + ")\n")
	}
	body := sb.String()
	order := s.procs
	if s.portfolio && bitwiseCone(seen) {
		// comparison-only queries go to the integer encoding first; queries
		// with masks, shifts or table look-ups (UTF-8 decoding) are faster
		// with bit-blasting
		order = []*proc{s.procs[1], s.procs[2], s.procs[0], s.procs[3]}
	}
	for _, p := range order {
		t0 := time.Now()
		res, m, errMsg := p.query(body, vars, wantModel)
		d := time.Since(t0)
		s.Wait += d
		if d > 300*time.Millisecond {
			if path := os.Getenv("SYMGO_SLOWLOG"); path != "" {
				os.WriteFile(fmt.Sprintf("%s.%s.%d.%d.smt2", path, p.kind, os.Getpid(), s.Queries), []byte(fmt.Sprintf("; %v %v\n%s(check-sat)\n", d, res, body)), 0644)
			}
		}
		if errMsg != "" {
			s.Errors = append(s.Errors, errMsg)
		}
		switch res {
		case Sat:
			s.SatN++
			s.ByProc[p.kind]++
			return Sat, m
		case Unsat:
			s.UnsatN++
			s.ByProc[p.kind]++
			return Unsat, nil
		}
	}
	s.UnkN++
	return Unknown, nil
}

// bitwiseCone reports whether the terms of a query use bit-level operators.
func bitwiseCone(seen map[*Term]bool) bool {
	n := 0
	for t := range seen {
		switch t.Op {
		case OpAnd, OpOr, OpXor, OpBvNot, OpShl, OpLShr, OpAShr, OpExtract:
			n++
		}
	}
	return n > 0
}

func tokenize(s string) []string {
	var toks []string
	i := 0
	for i < len(s) {
		c := s[i]
		switch {
		case c == '(' || c == ')':
			toks = append(toks, string(c))
			i++
		case c == ' ' || c == '\n' || c == '\t' || c == '\r':
			i++
		case c == '|':
			j := i + 1
			for j < len(s) && s[j] != '|' {
				j++
			}
			toks = append(toks, s[i:j+1])
			i = j + 1
		default:
			j := i
			for j < len(s) && !strings.ContainsRune("() \n\t\r", rune(s[j])) {
				j++
			}
			toks = append(toks, s[i:j])
			i = j
		}
	}
	return toks
}
