package symgo

import (
	"unicode/utf8"

	"golang.org/x/tools/go/ssa"
)

// Model of unicode/utf8.DecodeRune for symbolic bytes. The real function goes
// through a 256-entry table and mask arithmetic, which gives the solver long
// ite chains and bit operations; the model splits on the documented byte
// classes with plain comparisons and builds the rune arithmetically. It is
// validated against the real function by the solver (harness kern.H_DecodeRune
// runs the real SSA with the model switched off and asserts equal results).

func init() {
	externals["unicode/utf8.DecodeRune"] = func(in *Interp, fn *ssa.Function, a []Value) Value {
		return in.decodeRuneModel(sliceBytes(a[0].(Slice)))
	}
	externals["unicode/utf8.DecodeRuneInString"] = func(in *Interp, fn *ssa.Function, a []Value) Value {
		return in.decodeRuneModel(strCells(a[0]))
	}
	vrtFns["ModelDecodeRune"] = func(in *Interp, fn *ssa.Function, a []Value) Value {
		return in.decodeRuneModel(sliceBytes(a[0].(Slice)))
	}
}

func (in *Interp) decodeRuneModel(p SymStr) Value {
	runeErr := Tuple{mkInt(32, uint64(utf8.RuneError)), mkInt(64, 1)}
	n := len(p)
	if n == 0 {
		return Tuple{mkInt(32, uint64(utf8.RuneError)), mkInt(64, 0)}
	}
	if n > 4 {
		p = p[:4]
		n = 4
	}
	if _, ok := p.Concrete(); ok {
		bs := make([]byte, n)
		for i, c := range p {
			bs[i] = byte(c.C)
		}
		r, w := utf8.DecodeRune(bs)
		return Tuple{mkInt(32, uint64(r)), mkInt(64, uint64(w))}
	}
	tt := in.TT
	c8 := func(v uint64) *Term { return tt.Const(8, v) }
	lt := func(x *Term, v uint64) bool { return in.decide(tt.Cmp(OpULt, x, c8(v))) }
	eq := func(x *Term, v uint64) bool { return in.decide(tt.Cmp(OpEq, x, c8(v))) }
	b0 := tt.IntTerm(p[0])
	if lt(b0, 0x80) {
		return Tuple{symInt(tt.ZExt(b0, 32)), mkInt(64, 1)}
	}
	if lt(b0, 0xC2) {
		return runeErr
	}
	if in.decide(tt.Cmp(OpULt, c8(0xF4), b0)) {
		return runeErr
	}
	var sz int
	var lo, hi, lead uint64
	switch {
	case lt(b0, 0xE0):
		sz, lo, hi, lead = 2, 0x80, 0xBF, 0xC0
	case eq(b0, 0xE0):
		sz, lo, hi, lead = 3, 0xA0, 0xBF, 0xE0
	case lt(b0, 0xED):
		sz, lo, hi, lead = 3, 0x80, 0xBF, 0xE0
	case eq(b0, 0xED):
		sz, lo, hi, lead = 3, 0x80, 0x9F, 0xE0
	case lt(b0, 0xF0):
		sz, lo, hi, lead = 3, 0x80, 0xBF, 0xE0
	case eq(b0, 0xF0):
		sz, lo, hi, lead = 4, 0x90, 0xBF, 0xF0
	case lt(b0, 0xF4):
		sz, lo, hi, lead = 4, 0x80, 0xBF, 0xF0
	default:
		sz, lo, hi, lead = 4, 0x80, 0x8F, 0xF0
	}
	if n < sz {
		return runeErr
	}
	in32 := func(x *Term, base uint64) *Term {
		return tt.Bin(OpSub, tt.ZExt(x, 32), tt.Const(32, base))
	}
	outside := func(x *Term, lo, hi uint64) bool {
		return in.decide(tt.Or(tt.Cmp(OpULt, x, c8(lo)), tt.Cmp(OpULt, c8(hi), x)))
	}
	b1 := tt.IntTerm(p[1])
	if outside(b1, lo, hi) {
		return runeErr
	}
	mul := func(x *Term, k uint64) *Term { return tt.Bin(OpMul, x, tt.Const(32, k)) }
	r := tt.Bin(OpAdd, mul(in32(b0, lead), 64), in32(b1, 0x80))
	if sz == 2 {
		return Tuple{symInt(r), mkInt(64, 2)}
	}
	b2 := tt.IntTerm(p[2])
	if outside(b2, 0x80, 0xBF) {
		return runeErr
	}
	r = tt.Bin(OpAdd, mul(r, 64), in32(b2, 0x80))
	if sz == 3 {
		return Tuple{symInt(r), mkInt(64, 3)}
	}
	b3 := tt.IntTerm(p[3])
	if outside(b3, 0x80, 0xBF) {
		return runeErr
	}
	r = tt.Bin(OpAdd, mul(r, 64), in32(b3, 0x80))
	return Tuple{symInt(r), mkInt(64, 4)}
}
