package symgo

import (
	"fmt"
	"os"
	"runtime/debug"
	"sort"
	"strings"
	"sync"
	"time"

	"golang.org/x/tools/go/ssa"
)

// Decision is one resolved choice on a path: a branch (Val 0/1) or a picked
// value of a symbolic integer (IsVal) with the sibling values already tried.
type Decision struct {
	IsVal bool
	Val   uint64
	Excl  []uint64
}

type workItem struct {
	prefix []Decision
	model  Model
}

// Config of one exploration.
type Config struct {
	Name         string
	Entry        *ssa.Function
	Workers      int
	Solver       string
	TimeoutMs    int
	MaxSteps     int64
	MaxPaths     int
	MaxCex       int
	PanicOK      bool              // panics are not violations (harness handles them itself)
	UnwindCex    bool              // a step-budget overrun is a candidate counterexample (termination harnesses)
	Setup        func(in *Interp)  // per worker, after creation
	PathSetup    func(in *Interp)  // before every path
	MaxValueFan  int               // maximum siblings for a value pick
	StopOnCex    bool
	Deadline     time.Time
	KeepSamples  int
	CrossCheck   string // second solver for assertion queries ("" = none)
	CollectAll   bool   // keep the Observe log and witness inputs of every completed path
}

// Cex is a counterexample: an assertion (or panic) with a model of the inputs.
type Cex struct {
	ID       string            `json:"id"`
	Msg      string            `json:"msg"`
	Inputs   map[string]uint64 `json:"inputs"`
	Stack    string            `json:"stack,omitempty"`
	Observed []string          `json:"observed,omitempty"`
}

type PathSample struct {
	Status    string            `json:"status"`
	Decisions int               `json:"decisions"`
	Inputs    map[string]uint64 `json:"witness_inputs"`
	Observed  []string          `json:"observed,omitempty"`
}

// Report aggregates an exploration.
type Report struct {
	Name        string
	Paths       map[string]int
	Total       int
	Cex         []Cex
	Reached     map[string]int
	Decisions   int
	Queries     int
	SatN        int
	UnsatN      int
	UnknownN    int
	SolverTime  time.Duration
	SolverWait  time.Duration
	BySolver    map[string]int
	Wall        time.Duration
	Functions   map[string]bool
	Stubs       map[string]int
	Problems    []string // unsupported / unwind / unknown messages (deduplicated)
	Samples     []PathSample
	Steps       int64
	Truncated   bool
	DeadlineHit bool // stopped by Config.Deadline (the caller decides what that means)
	UnwindCex   bool
	SolverErrs  []string
	CrossChecks int
	CrossDiffs  []string
	PathLogs    []PathSample // every completed path when Config.CollectAll
	mu          sync.Mutex
	problemSet  map[string]bool
}

func (r *Report) problem(msg string) {
	if r.problemSet == nil {
		r.problemSet = map[string]bool{}
	}
	if !r.problemSet[msg] && len(r.Problems) < 50 {
		r.problemSet[msg] = true
		r.Problems = append(r.Problems, msg)
	}
}

// Inconclusive reports whether some path could not be decided.
func (r *Report) Inconclusive() bool {
	return r.Paths["unsupported"] > 0 || (r.Paths["unwind"] > 0 && !r.UnwindCex) || r.Paths["internal"] > 0 ||
		r.UnknownN > 0 || r.Truncated || len(r.SolverErrs) > 0 || len(r.CrossDiffs) > 0
}

type pathCtx struct {
	w       *worker
	prefix  []Decision
	pos     int
	taken   []Decision
	pc      []*Term
	pcSet   map[*Term]bool
	model   Model
	ev      *evaluator
	reached []string
	nsym    int
}

type worker struct {
	id    int
	x     *explorer
	tt    *Table
	sol   *Solver
	sol2  *Solver
	in    *Interp
}

type explorer struct {
	cfg     Config
	prog    *Program
	mu      sync.Mutex
	cond    *sync.Cond
	work    []workItem
	active  int
	stopped bool
	rep     *Report
}

// Explore runs the harness entry on all paths.
func Explore(p *Program, cfg Config) *Report {
	if cfg.Workers <= 0 {
		cfg.Workers = 1
	}
	if cfg.TimeoutMs == 0 {
		cfg.TimeoutMs = 10000
	}
	if cfg.MaxSteps == 0 {
		cfg.MaxSteps = 20_000_000
	}
	if cfg.MaxPaths == 0 {
		cfg.MaxPaths = 2_000_000
	}
	if cfg.MaxCex == 0 {
		cfg.MaxCex = 12
	}
	if cfg.MaxValueFan == 0 {
		cfg.MaxValueFan = 64
	}
	if cfg.KeepSamples == 0 {
		cfg.KeepSamples = 4
	}
	x := &explorer{cfg: cfg, prog: p}
	x.cond = sync.NewCond(&x.mu)
	x.rep = &Report{Name: cfg.Name, UnwindCex: cfg.UnwindCex, Paths: map[string]int{}, Reached: map[string]int{},
		Functions: map[string]bool{}, Stubs: map[string]int{}}
	x.work = []workItem{{}}
	start := time.Now()
	var wg sync.WaitGroup
	for i := 0; i < cfg.Workers; i++ {
		wg.Add(1)
		go func(i int) {
			defer wg.Done()
			x.runWorker(i)
		}(i)
	}
	wg.Wait()
	x.rep.Wall = time.Since(start)
	return x.rep
}

func (x *explorer) runWorker(id int) {
	tt := NewTable()
	sol, err := NewSolver(tt, x.cfg.Solver, x.cfg.TimeoutMs)
	if err != nil {
		x.rep.mu.Lock()
		x.rep.SolverErrs = append(x.rep.SolverErrs, err.Error())
		x.rep.mu.Unlock()
		return
	}
	defer sol.Close()
	w := &worker{id: id, x: x, tt: tt, sol: sol}
	if x.cfg.CrossCheck != "" {
		s2, err := NewSolver(tt, x.cfg.CrossCheck, x.cfg.TimeoutMs)
		if err == nil {
			w.sol2 = s2
			defer s2.Close()
		}
	}
	w.in = NewInterp(x.prog, tt)
	w.in.MaxSteps = x.cfg.MaxSteps
	if x.cfg.Setup != nil {
		x.cfg.Setup(w.in)
	}
	for {
		x.mu.Lock()
		for len(x.work) == 0 && x.active > 0 && !x.stopped {
			x.cond.Wait()
		}
		if x.stopped || len(x.work) == 0 {
			x.mu.Unlock()
			x.cond.Broadcast()
			break
		}
		item := x.work[len(x.work)-1]
		x.work = x.work[:len(x.work)-1]
		x.active++
		x.mu.Unlock()

		w.runPath(item)

		x.mu.Lock()
		x.active--
		if !x.cfg.Deadline.IsZero() && time.Now().After(x.cfg.Deadline) {
			x.stopped = true
			x.rep.DeadlineHit = true
		}
		x.mu.Unlock()
		x.cond.Broadcast()
	}
	r := x.rep
	r.mu.Lock()
	r.Queries += sol.Queries
	r.SatN += sol.SatN
	r.UnsatN += sol.UnsatN
	r.UnknownN += sol.UnkN
	r.SolverTime += sol.Time
	r.SolverWait += sol.Wait
	for k, v := range sol.ByProc {
		if r.BySolver == nil {
			r.BySolver = map[string]int{}
		}
		r.BySolver[k] += v
	}
	r.SolverErrs = append(r.SolverErrs, sol.Errors...)
	for fn := range w.in.FnsRun {
		r.Functions[fn.String()] = true
	}
	for k, v := range w.in.Stubs {
		r.Stubs[k] += v
	}
	r.mu.Unlock()
}

func (x *explorer) push(it workItem) {
	x.mu.Lock()
	x.work = append(x.work, it)
	x.mu.Unlock()
	x.cond.Signal()
}

func (w *worker) runPath(item workItem) {
	x := w.x
	in := w.in
	pc := &pathCtx{w: w, prefix: item.prefix, model: item.model, pcSet: map[*Term]bool{}}
	if pc.model == nil {
		pc.model = Model{}
	}
	pc.ev = w.tt.NewEval(pc.model)
	in.Ex = pc
	in.Steps = 0
	in.depth = 0
	in.stack = in.stack[:0]
	in.Observed = nil
	in.mapOrderMode = 0
	in.permCount = 0
	in.permBySize = nil
	in.mon = nil
	in.vfs = nil
	in.hostVars = nil
	in.vfsOrder = nil
	in.mons = [2]*monitor{}
	if in.dirty {
		// a global was written on the previous path: re-run initialisers
		in.globals = map[*ssa.Global]*Value{}
		in.inited = map[*ssa.Package]bool{}
		in.dirty = false
	}
	if x.cfg.PathSetup != nil {
		x.cfg.PathSetup(in)
	}
	status, msg, stack := "ok", "", ""
	func() {
		defer func() {
			if e := recover(); e != nil {
				switch e := e.(type) {
				case pathEnd:
					status, msg = e.Status, e.Msg
				case *goPanicVal:
					status, msg, stack = "panic", e.Msg, e.Stack
				case *internalErr:
					status = "internal"
					msg = fmt.Sprintf("%v\n%s", e.Err, e.Stack)
				default:
					status = "internal"
					msg = fmt.Sprintf("%v\n%s%s", e, in.stackString(), goStack())
				}
			}
		}()
		in.call(x.cfg.Entry, nil, nil)
	}()
	in.Ex = nil
	r := x.rep
	r.mu.Lock()
	defer r.mu.Unlock()
	r.Total++
	r.Paths[status]++
	r.Decisions += len(pc.taken)
	r.Steps += in.Steps
	for _, id := range pc.reached {
		r.Reached[id]++
	}
	switch status {
	case "panic":
		if !x.cfg.PanicOK {
			w.addCex(r, Cex{ID: "panic", Msg: msg, Inputs: pc.inputModel(), Stack: stack, Observed: in.Observed})
		}
	case "unsupported", "unwind", "internal":
		if status == "unwind" && x.cfg.UnwindCex {
			w.addCex(r, Cex{ID: "unwind", Msg: msg, Inputs: pc.inputModel(), Stack: stack, Observed: in.Observed})
			break
		}
		r.problem(status + ": " + msg)
		if os.Getenv("SYMGO_DEBUG") != "" {
			fmt.Fprintf(os.Stderr, "[%s] %s: %s\n%s", x.cfg.Name, status, msg, stack)
		}
	}
	if x.cfg.CollectAll && status == "ok" {
		r.PathLogs = append(r.PathLogs, PathSample{Status: status, Decisions: len(pc.taken), Inputs: pc.inputModel(), Observed: in.Observed})
	}
	if len(r.Samples) < x.cfg.KeepSamples && (status == "ok" || status == "panic") {
		r.Samples = append(r.Samples, PathSample{Status: status, Decisions: len(pc.taken), Inputs: pc.inputModel(), Observed: in.Observed})
	}
	if r.Total >= x.cfg.MaxPaths {
		x.mu.Lock()
		x.stopped = true
		x.mu.Unlock()
		r.Truncated = true
		r.problem("path budget reached")
	}
}

func (w *worker) addCex(r *Report, c Cex) {
	same := 0
	for _, o := range r.Cex {
		if o.ID == c.ID {
			same++
		}
	}
	if same < 1 && len(r.Cex) < w.x.cfg.MaxCex {
		r.Cex = append(r.Cex, c)
	}
	if w.x.cfg.StopOnCex {
		w.x.mu.Lock()
		w.x.stopped = true
		w.x.mu.Unlock()
	}
}

// inputModel gives the current model restricted to declared variables.
func (pc *pathCtx) inputModel() map[string]uint64 {
	m := map[string]uint64{}
	for _, v := range pc.w.tt.Vars {
		m[v.Name] = pc.model[v.Name] & mask64(v.W)
	}
	return m
}

func (pc *pathCtx) addPC(l *Term) {
	if l.IsConst() || pc.pcSet[l] {
		return
	}
	pc.pcSet[l] = true
	pc.pc = append(pc.pc, l)
}

func (pc *pathCtx) setModel(m Model) {
	pc.model = m
	pc.ev = pc.w.tt.NewEval(m)
}

// decide resolves a symbolic branch condition.
func (in *Interp) decide(c *Term) bool {
	if c.IsConst() {
		return c.C != 0
	}
	pc := in.Ex
	if pc == nil {
		panic(unsupported("symbolic condition in concrete mode"))
	}
	tt := in.TT
	nc := tt.Not(c)
	if pc.pcSet[c] {
		return true
	}
	if pc.pcSet[nc] {
		return false
	}
	var b bool
	if pc.pos < len(pc.prefix) {
		d := pc.prefix[pc.pos]
		pc.pos++
		if d.IsVal {
			panic(pathEnd{"internal", "replay divergence: expected branch decision"})
		}
		b = d.Val != 0
	} else {
		b = pc.ev.Eval(c) != 0
		other := c
		if b {
			other = nc
		}
		lits := append(append([]*Term{}, pc.pc...), other)
		res, m := pc.w.sol.Check(lits, true)
		switch res {
		case Sat:
			nb := uint64(1)
			if b {
				nb = 0
			}
			pref := append(append([]Decision{}, pc.taken...), Decision{Val: nb})
			pc.w.x.push(workItem{prefix: pref, model: m})
		case Unknown:
			pc.w.x.rep.mu.Lock()
			pc.w.x.rep.problem("solver unknown on branch feasibility")
			pc.w.x.rep.mu.Unlock()
		}
	}
	v := uint64(0)
	if b {
		v = 1
		pc.addPC(c)
	} else {
		pc.addPC(nc)
	}
	pc.taken = append(pc.taken, Decision{Val: v})
	return b
}

// pickValue makes a symbolic integer concrete by case split.
func (in *Interp) pickValue(t *Term) uint64 {
	if t.IsConst() {
		return t.C
	}
	pc := in.Ex
	if pc == nil {
		panic(unsupported("symbolic value in concrete mode"))
	}
	tt := in.TT
	var d Decision
	spawn := false
	if pc.pos < len(pc.prefix) {
		d = pc.prefix[pc.pos]
		spawn = pc.pos == len(pc.prefix)-1
		pc.pos++
		if !d.IsVal {
			panic(pathEnd{"internal", "replay divergence: expected value decision"})
		}
	} else {
		d = Decision{IsVal: true, Val: pc.ev.Eval(t)}
		spawn = true
	}
	if spawn {
		excl := append(append([]uint64{}, d.Excl...), d.Val)
		if len(excl) > pc.w.x.cfg.MaxValueFan {
			panic(pathEnd{"unwind", fmt.Sprintf("value fan-out above %d", pc.w.x.cfg.MaxValueFan)})
		}
		lits := append([]*Term{}, pc.pc...)
		for _, e := range excl {
			lits = append(lits, tt.Not(tt.Cmp(OpEq, t, tt.Const(t.W, e))))
		}
		res, m := pc.w.sol.Check(lits, true)
		switch res {
		case Sat:
			v2 := tt.NewEval(m).Eval(t)
			pref := append(append([]Decision{}, pc.taken...), Decision{IsVal: true, Val: v2, Excl: excl})
			pc.w.x.push(workItem{prefix: pref, model: m})
		case Unknown:
			pc.w.x.rep.mu.Lock()
			pc.w.x.rep.problem("solver unknown on value split")
			pc.w.x.rep.mu.Unlock()
		}
	}
	pc.addPC(tt.Cmp(OpEq, t, tt.Const(t.W, d.Val)))
	pc.taken = append(pc.taken, d)
	return d.Val
}

// Assume restricts the path; an infeasible assumption prunes it.
func (in *Interp) Assume(b Bool) {
	if b.T == nil {
		if !b.C {
			panic(pathEnd{"pruned", "assumption false"})
		}
		return
	}
	pc := in.Ex
	if pc.pcSet[b.T] {
		return
	}
	if pc.ev.Eval(b.T) == 0 {
		lits := append(append([]*Term{}, pc.pc...), b.T)
		res, m := pc.w.sol.Check(lits, true)
		switch res {
		case Sat:
			pc.setModel(m)
		case Unsat:
			panic(pathEnd{"pruned", "assumption infeasible"})
		default:
			panic(pathEnd{"unsupported", "solver unknown on assumption"})
		}
	}
	pc.addPC(b.T)
}

// Assert checks that the condition holds for every input on this path.
func (in *Interp) Assert(b Bool, id string) {
	pc := in.Ex
	if b.T == nil {
		if !b.C {
			pc.w.x.rep.mu.Lock()
			pc.w.addCex(pc.w.x.rep, Cex{ID: id, Msg: "assertion false on this path", Inputs: pc.inputModel(), Observed: in.Observed, Stack: in.stackString()})
			pc.w.x.rep.mu.Unlock()
			panic(pathEnd{"assertfail", id})
		}
		return
	}
	tt := in.TT
	if pc.pos < len(pc.prefix) {
		// still replaying the prefix: the path that spawned this one has
		// already decided this assertion under the same path condition.
		in.Assume(b)
		return
	}
	lits := append(append([]*Term{}, pc.pc...), tt.Not(b.T))
	res, m := pc.w.sol.Check(lits, true)
	if pc.w.sol2 != nil {
		r2, _ := pc.w.sol2.Check(lits, false)
		pc.w.x.rep.mu.Lock()
		pc.w.x.rep.CrossChecks++
		if r2 != res && r2 != Unknown && res != Unknown {
			pc.w.x.rep.CrossDiffs = append(pc.w.x.rep.CrossDiffs, fmt.Sprintf("%s: %s=%v %s=%v", id, pc.w.sol.Name, res, pc.w.sol2.Name, r2))
		}
		pc.w.x.rep.mu.Unlock()
	}
	switch res {
	case Sat:
		save := pc.model
		pc.setModel(m)
		cex := Cex{ID: id, Msg: "assertion can fail", Inputs: pc.inputModel(), Observed: in.Observed, Stack: in.stackString()}
		pc.setModel(save)
		pc.w.x.rep.mu.Lock()
		pc.w.addCex(pc.w.x.rep, cex)
		pc.w.x.rep.mu.Unlock()
	case Unknown:
		pc.w.x.rep.mu.Lock()
		pc.w.x.rep.problem("solver unknown on assertion " + id)
		pc.w.x.rep.mu.Unlock()
	}
	// continue under the assertion
	in.Assume(b)
}

func (in *Interp) Reach(id string) {
	if in.Ex != nil {
		in.Ex.reached = append(in.Ex.reached, id)
	}
}

// Fresh input variables.
func (in *Interp) FreshInt(name string, w uint8) Int {
	return Int{W: w, T: in.TT.Var(name, w)}
}

func (in *Interp) FreshBool(name string) Bool {
	return Bool{T: in.TT.Var(name, 0)}
}

// Summary renders the report.
func (r *Report) Summary() string {
	var sb strings.Builder
	keys := make([]string, 0, len(r.Paths))
	for k := range r.Paths {
		keys = append(keys, k)
	}
	sort.Strings(keys)
	fmt.Fprintf(&sb, "%s: paths=%d", r.Name, r.Total)
	for _, k := range keys {
		fmt.Fprintf(&sb, " %s=%d", k, r.Paths[k])
	}
	fmt.Fprintf(&sb, " decisions=%d queries=%d (sat %d unsat %d unknown %d) solver=%.2fs (wait %.2fs) wall=%.2fs steps=%d cex=%d",
		r.Decisions, r.Queries, r.SatN, r.UnsatN, r.UnknownN, r.SolverTime.Seconds(), r.SolverWait.Seconds(), r.Wall.Seconds(), r.Steps, len(r.Cex))
	fmt.Fprintf(&sb, " by=%v", r.BySolver)
	for _, p := range r.Problems {
		fmt.Fprintf(&sb, "\n  problem: %s", firstLines(p, 12))
	}
	for _, e := range r.SolverErrs {
		fmt.Fprintf(&sb, "\n  solver error: %s", e)
	}
	return sb.String()
}

func firstLines(s string, n int) string {
	lines := strings.Split(s, "\n")
	if len(lines) > n {
		lines = lines[:n]
	}
	return strings.Join(lines, "\n")
}

// goStack gives the host stack reduced to symgo source lines.
func goStack() string {
	var out []string
	for _, l := range strings.Split(string(debug.Stack()), "\n") {
		if strings.Contains(l, "/symgo/") && strings.HasPrefix(l, "\t") && !strings.Contains(l, "explore.go") {
			out = append(out, "    host:"+strings.TrimSpace(l))
			if len(out) >= 6 {
				break
			}
		}
	}
	return strings.Join(out, "\n")
}
