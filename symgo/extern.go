package symgo

import (
	"fmt"
	"go/token"
	"go/types"
	"path/filepath"
	"regexp"
	"regexp/syntax"
	"sort"
	"strings"

	"golang.org/x/tools/go/ssa"
)

type extFn func(in *Interp, fn *ssa.Function, args []Value) Value

// external returns the model for fn, if any.
func (in *Interp) external(fn *ssa.Function) extFn {
	if fn.Pkg == nil && fn.Origin() == nil {
		// synthetic wrappers etc. are interpreted
		if len(fn.Blocks) > 0 {
			return nil
		}
	}
	name := fn.String()
	if o := fn.Origin(); o != nil {
		name = o.String()
	}
	if symGuarded[name] && !in.NoModel[name] {
		// formatting an integer: interpreted as it is on concrete operands; on a
		// symbolic one the digit loop would fan out over table look-ups, so the
		// path ends as unsupported at once
		return func(in *Interp, fn *ssa.Function, args []Value) Value {
			for _, a := range args {
				if i, ok := a.(Int); ok && i.T != nil {
					panic(unsupported(name + " on a symbolic integer"))
				}
			}
			if in.NoModel == nil {
				in.NoModel = map[string]bool{}
			}
			prev := in.NoModel[name]
			in.NoModel[name] = true
			defer func() { in.NoModel[name] = prev }()
			return in.call(fn, args, nil)
		}
	}
	if e, ok := externals[name]; ok && !in.NoModel[name] {
		return func(in *Interp, fn *ssa.Function, args []Value) Value {
			in.Stubs[name]++
			return e(in, fn, args)
		}
	}
	if fn.Pkg != nil && fn.Pkg.Pkg.Name() == "vrt" {
		if e, ok := vrtFns[fn.Name()]; ok {
			return e
		}
		if len(fn.Blocks) > 0 {
			return nil
		}
		panic(unsupported("vrt function " + fn.Name()))
	}
	return nil
}

func argStr(in *Interp, v Value) string {
	switch v := v.(type) {
	case string:
		return v
	case SymStr:
		if s, ok := v.Concrete(); ok {
			return s
		}
		panic(unsupported("symbolic string passed to a native model"))
	}
	panic(fmt.Sprintf("argStr: %T", v))
}

// nativeArg converts a value for fmt.
func (in *Interp) nativeArg(v Value) any {
	switch v := v.(type) {
	case Iface:
		if v.T == nil {
			return nil
		}
		// error / Stringer first
		if _, isPtrOrNamed := v.T.(*types.Named); isPtrOrNamed || isPointer(v.T) {
			for _, name := range []string{"Error", "String"} {
				if m := in.findMethod(v.T, name); m != nil && len(m.Blocks) > 0 &&
					m.Signature.Params().Len() == 0 && m.Signature.Results().Len() == 1 {
					if p, ok := v.V.(*Value); ok && p == nil {
						return "<nil>"
					}
					r := in.call(m, []Value{v.V}, nil)
					if s, ok := r.(string); ok {
						return verbatim(s)
					}
					if s, ok := r.(SymStr); ok {
						_ = s
						return verbatim("<sym>")
					}
				}
			}
		}
		return in.nativeTyped(v.T, v.V)
	}
	return in.nativeTyped(nil, v)
}

type verbatim string

func (v verbatim) String() string { return string(v) }

func isPointer(t types.Type) bool {
	_, ok := t.Underlying().(*types.Pointer)
	return ok
}

func (in *Interp) nativeTyped(t types.Type, v Value) any {
	switch v := v.(type) {
	case Int:
		if v.T != nil {
			return verbatim("<sym>")
		}
		if t != nil {
			if b, ok := t.Underlying().(*types.Basic); ok {
				switch b.Kind() {
				case types.Int8, types.Int16, types.Int64, types.Int:
					return int(sext(v.C, v.W))
				case types.Int32:
					return rune(sext(v.C, v.W))
				case types.Uint8:
					return uint8(v.C)
				case types.Uint16, types.Uint32, types.Uint64, types.Uint, types.Uintptr:
					return uint(v.C)
				}
			}
		}
		return int(sext(v.C, v.W))
	case Bool:
		if v.T != nil {
			return verbatim("<sym>")
		}
		return v.C
	case string:
		return v
	case SymStr:
		return verbatim("<sym>")
	case float64:
		return v
	case nil:
		return nil
	case *Value:
		if v == nil {
			return nil
		}
		return verbatim("<ptr>")
	case Slice:
		out := make([]any, len(v.A))
		var et types.Type
		if t != nil {
			if st, ok := t.Underlying().(*types.Slice); ok {
				et = st.Elem()
			}
		}
		allBytes := et != nil && len(v.A) > 0
		for i, e := range v.A {
			if ifc, ok := e.(Iface); ok {
				out[i] = in.nativeArg(ifc)
			} else {
				out[i] = in.nativeTyped(et, e)
			}
			if _, ok := out[i].(uint8); !ok {
				allBytes = false
			}
		}
		if allBytes {
			bs := make([]byte, len(out))
			for i, o := range out {
				bs[i] = o.(uint8)
			}
			return bs
		}
		return out
	case Struct:
		return verbatim("{...}")
	case *Native:
		return v.V
	}
	return verbatim(fmt.Sprintf("<%T>", v))
}

func (in *Interp) sprintf(format string, args Value) string {
	var nat []any
	if s, ok := args.(Slice); ok {
		for _, a := range s.A {
			nat = append(nat, in.nativeArg(a))
		}
	}
	return fmt.Sprintf(format, nat...)
}

func (in *Interp) sprint(args Value, ln bool) string {
	var nat []any
	if s, ok := args.(Slice); ok {
		for _, a := range s.A {
			nat = append(nat, in.nativeArg(a))
		}
	}
	if ln {
		return fmt.Sprintln(nat...)
	}
	return fmt.Sprint(nat...)
}

// writeTo sends text to an interpreted io.Writer.
func (in *Interp) writeTo(w Value, text string) {
	ifc, ok := w.(Iface)
	if !ok || ifc.T == nil {
		return
	}
	m := in.findMethod(ifc.T, "Write")
	if m == nil {
		return
	}
	bs := make([]Value, len(text))
	for i := 0; i < len(text); i++ {
		bs[i] = mkInt(8, uint64(text[i]))
	}
	in.callValue(m, []Value{ifc.V, Slice{A: bs}}, nil)
}

func errorValue(in *Interp, msg string) Value {
	// *errors.errorString{msg}
	pkg := in.P.Pkgs["errors"]
	if pkg == nil {
		panic(unsupported("errors package not loaded"))
	}
	return in.call(pkg.Func("New"), []Value{msg}, nil)
}

func intRet(v int) Value { return mkInt(64, uint64(int64(v))) }

var externals map[string]extFn

func init() {
	externals = map[string]extFn{
		// ---- fmt (native when concrete) ----
		"fmt.Sprintf": func(in *Interp, fn *ssa.Function, a []Value) Value {
			return in.sprintf(argStr(in, a[0]), a[1])
		},
		"fmt.Sprint":   func(in *Interp, fn *ssa.Function, a []Value) Value { return in.sprint(a[0], false) },
		"fmt.Sprintln": func(in *Interp, fn *ssa.Function, a []Value) Value { return in.sprint(a[0], true) },
		"fmt.Errorf": func(in *Interp, fn *ssa.Function, a []Value) Value {
			return errorValue(in, in.sprintf(argStr(in, a[0]), a[1]))
		},
		"fmt.Fprintf": func(in *Interp, fn *ssa.Function, a []Value) Value {
			s := in.sprintf(argStr(in, a[1]), a[2])
			in.writeTo(a[0], s)
			return Tuple{intRet(len(s)), Iface{}}
		},
		"fmt.Fprintln": func(in *Interp, fn *ssa.Function, a []Value) Value {
			s := in.sprint(a[1], true)
			in.writeTo(a[0], s)
			return Tuple{intRet(len(s)), Iface{}}
		},
		"fmt.Fprint": func(in *Interp, fn *ssa.Function, a []Value) Value {
			s := in.sprint(a[1], false)
			in.writeTo(a[0], s)
			return Tuple{intRet(len(s)), Iface{}}
		},
		"fmt.Printf":  func(in *Interp, fn *ssa.Function, a []Value) Value { return Tuple{intRet(0), Iface{}} },
		"fmt.Println": func(in *Interp, fn *ssa.Function, a []Value) Value { return Tuple{intRet(0), Iface{}} },
		"fmt.Print":   func(in *Interp, fn *ssa.Function, a []Value) Value { return Tuple{intRet(0), Iface{}} },

		// ---- strings.Builder (uses unsafe) ----
		"(*strings.Builder).copyCheck": func(in *Interp, fn *ssa.Function, a []Value) Value { return nil },
		"(*strings.Builder).grow":      func(in *Interp, fn *ssa.Function, a []Value) Value { return nil },
		"(*strings.Builder).Grow":      func(in *Interp, fn *ssa.Function, a []Value) Value { return nil },
		"(*strings.Builder).String": func(in *Interp, fn *ssa.Function, a []Value) Value {
			b := (*a[0].(*Value)).(Struct)
			buf := b[1].(Slice)
			cells := make(SymStr, len(buf.A))
			for i, c := range buf.A {
				cells[i] = c.(Int)
			}
			return normStr(cells)
		},
		"internal/bytealg.MakeNoZero": func(in *Interp, fn *ssa.Function, a []Value) Value {
			n := int(a[0].(Int).C)
			s := make([]Value, n)
			for i := range s {
				s[i] = mkInt(8, 0)
			}
			return Slice{A: s}
		},
		"strings.Clone":               func(in *Interp, fn *ssa.Function, a []Value) Value { return a[0] },
		"internal/stringslite.Clone": func(in *Interp, fn *ssa.Function, a []Value) Value { return a[0] },
		"strconv.cloneString":        func(in *Interp, fn *ssa.Function, a []Value) Value { return a[0] },

		// ---- bytealg (assembly) ----
		"internal/bytealg.IndexByteString": func(in *Interp, fn *ssa.Function, a []Value) Value {
			return in.indexByte(strCells(a[0]), a[1].(Int))
		},
		"internal/bytealg.IndexByte": func(in *Interp, fn *ssa.Function, a []Value) Value {
			return in.indexByte(sliceBytes(a[0].(Slice)), a[1].(Int))
		},
		"internal/bytealg.CountString": func(in *Interp, fn *ssa.Function, a []Value) Value {
			return in.countByte(strCells(a[0]), a[1].(Int))
		},
		"internal/bytealg.Count": func(in *Interp, fn *ssa.Function, a []Value) Value {
			return in.countByte(sliceBytes(a[0].(Slice)), a[1].(Int))
		},
		"internal/bytealg.IndexString": func(in *Interp, fn *ssa.Function, a []Value) Value {
			return in.indexSym(strCells(a[0]), strCells(a[1]))
		},
		"internal/bytealg.Index": func(in *Interp, fn *ssa.Function, a []Value) Value {
			return in.indexSym(sliceBytes(a[0].(Slice)), sliceBytes(a[1].(Slice)))
		},
		"internal/bytealg.Equal": func(in *Interp, fn *ssa.Function, a []Value) Value {
			return in.strEq(sliceBytes(a[0].(Slice)), sliceBytes(a[1].(Slice)))
		},
		"internal/bytealg.Compare": func(in *Interp, fn *ssa.Function, a []Value) Value {
			x, y := sliceBytes(a[0].(Slice)), sliceBytes(a[1].(Slice))
			lt := in.strLess(x, y, false)
			eq := in.strEq(x, y)
			if in.truth(lt) {
				return intRet(-1)
			}
			if in.truth(eq) {
				return intRet(0)
			}
			return intRet(1)
		},
		"internal/stringslite.Index": func(in *Interp, fn *ssa.Function, a []Value) Value {
			return in.indexSym(strCells(a[0]), strCells(a[1]))
		},
		"strings.Index": func(in *Interp, fn *ssa.Function, a []Value) Value {
			return in.indexSym(strCells(a[0]), strCells(a[1]))
		},
		"strings.Contains": func(in *Interp, fn *ssa.Function, a []Value) Value {
			i := in.indexSym(strCells(a[0]), strCells(a[1])).(Int)
			return mkBool(i.Signed() >= 0)
		},
		"strings.Count": func(in *Interp, fn *ssa.Function, a []Value) Value {
			hay, needle := strCells(a[0]), strCells(a[1])
			if len(needle) == 0 {
				if s, ok := hay.Concrete(); ok {
					return intRet(strings.Count(s, ""))
				}
				panic(unsupported("strings.Count with empty separator on symbolic string"))
			}
			n := 0
			for {
				i := in.indexSym(hay, needle).(Int).Signed()
				if i < 0 {
					return intRet(n)
				}
				n++
				hay = hay[int(i)+len(needle):]
			}
		},

		// ---- sort.Slice family: insertion sort calling the real less ----
		"sort.Slice":       sortSliceModel,
		"sort.SliceStable": sortSliceModel,

		// ---- regexp ----
		"regexp.MustCompile": func(in *Interp, fn *ssa.Function, a []Value) Value {
			p := new(Value)
			*p = &Native{V: regexp.MustCompile(argStr(in, a[0]))}
			return p
		},
		"(*regexp.Regexp).MatchString": func(in *Interp, fn *ssa.Function, a []Value) Value {
			re := (*a[0].(*Value)).(*Native).V.(*regexp.Regexp)
			if s, ok := a[1].(string); ok {
				return mkBool(re.MatchString(s))
			}
			return in.symRegexMatch(re.String(), strCells(a[1]))
		},

		// ---- runtime / os ----
		"runtime.Caller": func(in *Interp, fn *ssa.Function, a []Value) Value {
			return Tuple{mkInt(64, 0), "symgo", intRet(0), mkBool(false)}
		},
		// ---- template engine: the values handed over are kept, rendering is
		// skipped (jet is reflection all the way down); harnesses fetch the
		// closures back with vrt.HostVar and call them ----
		"(github.com/CloudyKit/jet/v6.VarMap).Set": func(in *Interp, fn *ssa.Function, a []Value) Value {
			if in.hostVars == nil {
				in.hostVars = map[string]Value{}
			}
			in.hostVars[argStr(in, a[1])] = a[2]
			return a[0]
		},
		"github.com/dcaiafa/lox/internal/codegen.renderTemplate": func(in *Interp, fn *ssa.Function, a []Value) Value {
			return ""
		},
		"os.WriteFile": func(in *Interp, fn *ssa.Function, a []Value) Value {
			if in.vfs == nil {
				in.vfs = map[string]Slice{}
			}
			name := argStr(in, a[0])
			src := a[1].(Slice)
			cp := make([]Value, len(src.A))
			copy(cp, src.A)
			in.vfs[name] = Slice{A: cp}
			return Iface{}
		},
		"os.ReadFile": func(in *Interp, fn *ssa.Function, a []Value) Value {
			name := argStr(in, a[0])
			if data, ok := in.vfs[name]; ok {
				cp := make([]Value, len(data.A))
				copy(cp, data.A)
				return Tuple{Slice{A: cp}, Iface{}}
			}
			return Tuple{Slice{}, errorValue(in, "open "+name+": no such file")}
		},
		"path/filepath.Glob": func(in *Interp, fn *ssa.Function, a []Value) Value {
			pat := argStr(in, a[0])
			var names []string
			for _, n := range in.vfsOrder {
				if ok, _ := filepath.Match(pat, n); ok {
					names = append(names, n)
				}
			}
			sort.Strings(names)
			out := make([]Value, len(names))
			for i, n := range names {
				out[i] = n
			}
			if len(out) == 0 {
				return Tuple{Slice{}, Iface{}}
			}
			return Tuple{Slice{A: out}, Iface{}}
		},
		"path/filepath.Join": func(in *Interp, fn *ssa.Function, a []Value) Value {
			var parts []string
			for _, e := range a[0].(Slice).A {
				parts = append(parts, argStr(in, e))
			}
			return filepath.Join(parts...)
		},
		"os.Getwd": func(in *Interp, fn *ssa.Function, a []Value) Value { return Tuple{"/", Iface{}} },
		"path/filepath.Rel": func(in *Interp, fn *ssa.Function, a []Value) Value {
			return Tuple{a[1], Iface{}}
		},
		"os.Exit": func(in *Interp, fn *ssa.Function, a []Value) Value {
			panic(pathEnd{"exit", fmt.Sprint(a[0].(Int).C)})
		},

		// ---- sync ----
		"(*sync.Mutex).Lock":      func(in *Interp, fn *ssa.Function, a []Value) Value { return nil },
		"(*sync.Mutex).Unlock":    func(in *Interp, fn *ssa.Function, a []Value) Value { return nil },
		"(*sync.RWMutex).Lock":    func(in *Interp, fn *ssa.Function, a []Value) Value { return nil },
		"(*sync.RWMutex).Unlock":  func(in *Interp, fn *ssa.Function, a []Value) Value { return nil },
		"(*sync.RWMutex).RLock":   func(in *Interp, fn *ssa.Function, a []Value) Value { return nil },
		"(*sync.RWMutex).RUnlock": func(in *Interp, fn *ssa.Function, a []Value) Value { return nil },

		// ---- go/token (native handles) ----
		"go/token.NewFileSet": func(in *Interp, fn *ssa.Function, a []Value) Value {
			p := new(Value)
			*p = &Native{V: token.NewFileSet()}
			return p
		},
		"(*go/token.FileSet).AddFile": func(in *Interp, fn *ssa.Function, a []Value) Value {
			fs := (*a[0].(*Value)).(*Native).V.(*token.FileSet)
			f := fs.AddFile(argStr(in, a[1]), int(a[2].(Int).Signed()), int(a[3].(Int).Signed()))
			return in.nativeCell(f)
		},
		"(*go/token.FileSet).Position": func(in *Interp, fn *ssa.Function, a []Value) Value {
			fs := (*a[0].(*Value)).(*Native).V.(*token.FileSet)
			pos := fs.Position(token.Pos(a[1].(Int).Signed()))
			return positionValue(pos)
		},
		"(*go/token.FileSet).File": func(in *Interp, fn *ssa.Function, a []Value) Value {
			fs := (*a[0].(*Value)).(*Native).V.(*token.FileSet)
			f := fs.File(token.Pos(a[1].(Int).Signed()))
			if f == nil {
				return (*Value)(nil)
			}
			return in.nativeCell(f)
		},
		"(*go/token.File).Pos": func(in *Interp, fn *ssa.Function, a []Value) Value {
			f := nativeFile(a[0])
			off := a[1].(Int)
			if off.T != nil {
				return symInt(in.TT.Bin(OpAdd, off.T, in.TT.Const(64, uint64(f.Base()))))
			}
			return intRet(f.Base() + int(off.Signed()))
		},
		"(*go/token.File).AddLine": func(in *Interp, fn *ssa.Function, a []Value) Value {
			f := nativeFile(a[0])
			if off := a[1].(Int); off.T == nil {
				f.AddLine(int(off.Signed()))
			}
			return nil
		},
		"(*go/token.File).Base": func(in *Interp, fn *ssa.Function, a []Value) Value {
			return intRet(nativeFile(a[0]).Base())
		},
		"(*go/token.File).Size": func(in *Interp, fn *ssa.Function, a []Value) Value {
			return intRet(nativeFile(a[0]).Size())
		},
		"(*go/token.File).Name": func(in *Interp, fn *ssa.Function, a []Value) Value {
			return nativeFile(a[0]).Name()
		},
		"(*go/token.File).Offset": func(in *Interp, fn *ssa.Function, a []Value) Value {
			return intRet(nativeFile(a[0]).Offset(token.Pos(a[1].(Int).Signed())))
		},
		"(*go/token.File).Position": func(in *Interp, fn *ssa.Function, a []Value) Value {
			return positionValue(nativeFile(a[0]).Position(token.Pos(a[1].(Int).Signed())))
		},
		"(go/token.Position).String": func(in *Interp, fn *ssa.Function, a []Value) Value {
			s := a[0].(Struct)
			p := token.Position{Filename: s[0].(string), Offset: int(s[1].(Int).Signed()), Line: int(s[2].(Int).Signed()), Column: int(s[3].(Int).Signed())}
			return p.String()
		},
		"(*go/token.Position).String": func(in *Interp, fn *ssa.Function, a []Value) Value {
			s := (*a[0].(*Value)).(Struct)
			p := token.Position{Filename: s[0].(string), Offset: int(s[1].(Int).Signed()), Line: int(s[2].(Int).Signed()), Column: int(s[3].(Int).Signed())}
			return p.String()
		},
	}
}

// nativeCell returns the one cell standing for a host object, so that pointer
// comparisons in interpreted code behave like the host's.
func (in *Interp) nativeCell(obj any) *Value {
	if in.nativeCells == nil {
		in.nativeCells = map[any]*Value{}
	}
	if p, ok := in.nativeCells[obj]; ok {
		return p
	}
	p := new(Value)
	*p = &Native{V: obj}
	in.nativeCells[obj] = p
	return p
}

// findMethod looks a method up in the method set of T (nil if absent).
func (in *Interp) findMethod(T types.Type, name string) *ssa.Function {
	ms := in.P.Prog.MethodSets.MethodSet(T)
	for i := 0; i < ms.Len(); i++ {
		if ms.At(i).Obj().Name() == name {
			return in.P.Prog.MethodValue(ms.At(i))
		}
	}
	return nil
}

func nativeFile(v Value) *token.File {
	return (*v.(*Value)).(*Native).V.(*token.File)
}

func positionValue(p token.Position) Value {
	return Struct{p.Filename, intRet(p.Offset), intRet(p.Line), intRet(p.Column)}
}

func sliceBytes(s Slice) SymStr {
	cells := make(SymStr, len(s.A))
	for i, c := range s.A {
		cells[i] = c.(Int)
	}
	return cells
}

func (in *Interp) indexByte(cells SymStr, c Int) Value {
	for i, b := range cells {
		if in.truth(in.intCmp(token.EQL, 8, false, b, c)) {
			return intRet(i)
		}
	}
	return intRet(-1)
}

// indexSym is strings.Index for strings whose bytes may be symbolic (lengths
// are concrete): the first position where the needle matches, by case split.
func (in *Interp) indexSym(hay, needle SymStr) Value {
	if h, ok := hay.Concrete(); ok {
		if n, ok := needle.Concrete(); ok {
			return intRet(strings.Index(h, n))
		}
	}
	m := len(needle)
	for i := 0; i+m <= len(hay); i++ {
		if in.truth(in.strEq(hay[i:i+m], needle)) {
			return intRet(i)
		}
	}
	return intRet(-1)
}

func (in *Interp) countByte(cells SymStr, c Int) Value {
	tt := in.TT
	n := tt.Const(64, 0)
	for _, b := range cells {
		eq := in.intCmp(token.EQL, 8, false, b, c)
		n = tt.Bin(OpAdd, n, tt.Ite(tt.BoolTerm(eq), tt.Const(64, 1), tt.Const(64, 0)))
	}
	return symInt(n)
}

// symGuarded: functions interpreted from their real bodies unless an integer
// argument is symbolic.
var symGuarded = map[string]bool{
	"strconv.AppendInt": true, "strconv.AppendUint": true, "strconv.FormatInt": true, "strconv.FormatUint": true, "strconv.Itoa": true,
}

func sortSliceModel(in *Interp, fn *ssa.Function, a []Value) Value {
	ifc := a[0].(Iface)
	s, ok := ifc.V.(Slice)
	if !ok {
		panic(unsupported("sort.Slice on non-slice"))
	}
	less := a[1]
	n := len(s.A)
	// insertion sort with swaps done directly on the cells
	for i := 1; i < n; i++ {
		for j := i; j > 0; j-- {
			r := in.callValue(less, []Value{intRet(j), intRet(j - 1)}, nil).(Bool)
			if !in.truth(r) {
				break
			}
			tmp := copyVal(s.A[j])
			storeInto(&s.A[j], copyVal(s.A[j-1]))
			storeInto(&s.A[j-1], tmp)
		}
	}
	return nil
}

// symRegexMatch decides MatchString on a symbolic subject of concrete length by
// simulating the compiled program of regexp/syntax (Pike style) with one Bool
// term per thread. Supported: every pattern whose rune classes lie within
// ASCII (a byte >= 0x80 then matches no class, whatever rune it belongs to),
// text and line anchors; not supported: word boundaries, case folding, classes
// reaching beyond ASCII (a negated class, '.').
func (in *Interp) symRegexMatch(pat string, subj SymStr) Bool {
	re, err := syntax.Parse(pat, syntax.Perl)
	if err != nil {
		panic(unsupported("regexp: " + pat))
	}
	prog, err := syntax.Compile(re.Simplify())
	if err != nil {
		panic(unsupported("regexp: " + pat))
	}
	for _, inst := range prog.Inst {
		switch inst.Op {
		case syntax.InstRune, syntax.InstRune1:
			if syntax.Flags(inst.Arg)&syntax.FoldCase != 0 {
				panic(unsupported("regexp on symbolic subject (case folding): " + pat))
			}
			for _, r := range inst.Rune {
				if r > 0x7F {
					panic(unsupported("regexp on symbolic subject (class beyond ASCII): " + pat))
				}
			}
		case syntax.InstRuneAny, syntax.InstRuneAnyNotNL:
			panic(unsupported("regexp on symbolic subject (any rune): " + pat))
		case syntax.InstEmptyWidth:
			if syntax.EmptyOp(inst.Arg)&(syntax.EmptyWordBoundary|syntax.EmptyNoWordBoundary) != 0 {
				panic(unsupported("regexp on symbolic subject (word boundary): " + pat))
			}
		}
	}
	tt := in.TT
	n := len(subj)
	byteAt := func(i int) *Term { return tt.IntTerm(subj[i]) }
	isNL := func(i int) *Term { return tt.Cmp(OpEq, byteAt(i), tt.Const(8, '\n')) }
	matched := tt.False
	alive := make([]*Term, len(prog.Inst))
	var add func(dst []*Term, pc int, cond *Term, pos int, onStack map[int]bool)
	add = func(dst []*Term, pc int, cond *Term, pos int, onStack map[int]bool) {
		if cond == tt.False || onStack[pc] {
			return
		}
		onStack[pc] = true
		defer delete(onStack, pc)
		inst := &prog.Inst[pc]
		switch inst.Op {
		case syntax.InstAlt, syntax.InstAltMatch:
			add(dst, int(inst.Out), cond, pos, onStack)
			add(dst, int(inst.Arg), cond, pos, onStack)
		case syntax.InstNop, syntax.InstCapture:
			add(dst, int(inst.Out), cond, pos, onStack)
		case syntax.InstEmptyWidth:
			op := syntax.EmptyOp(inst.Arg)
			c := cond
			if op&syntax.EmptyBeginText != 0 && pos != 0 {
				c = tt.False
			}
			if op&syntax.EmptyEndText != 0 && pos != n {
				c = tt.False
			}
			if op&syntax.EmptyBeginLine != 0 && pos != 0 {
				c = tt.And(c, isNL(pos-1))
			}
			if op&syntax.EmptyEndLine != 0 && pos != n {
				c = tt.And(c, isNL(pos))
			}
			add(dst, int(inst.Out), c, pos, onStack)
		case syntax.InstMatch:
			matched = tt.Or(matched, cond)
		case syntax.InstFail:
		case syntax.InstRune, syntax.InstRune1:
			if dst[pc] == nil {
				dst[pc] = cond
			} else {
				dst[pc] = tt.Or(dst[pc], cond)
			}
		}
	}
	add(alive, prog.Start, tt.True, 0, map[int]bool{})
	for pos := 0; pos < n; pos++ {
		next := make([]*Term, len(prog.Inst))
		c := byteAt(pos)
		for pc, cond := range alive {
			if cond == nil {
				continue
			}
			inst := &prog.Inst[pc]
			hit := tt.False
			rs := inst.Rune
			if len(rs) == 1 {
				rs = []rune{rs[0], rs[0]}
			}
			for k := 0; k+1 < len(rs); k += 2 {
				hit = tt.Or(hit, tt.And(tt.Cmp(OpULe, tt.Const(8, uint64(rs[k])), c), tt.Cmp(OpULe, c, tt.Const(8, uint64(rs[k+1])))))
			}
			add(next, int(inst.Out), tt.And(cond, hit), pos+1, map[int]bool{})
		}
		// a match may start at any later position
		add(next, prog.Start, tt.True, pos+1, map[int]bool{})
		alive = next
	}
	return symBool(matched)
}
