// Package symgo is a symbolic executor for Go SSA (golang.org/x/tools/go/ssa)
// written for the lox verification task. Scalars may be symbolic (SMT
// bit-vectors / Booleans), heap shape is concrete, exploration is
// replay-based (see explore.go).
package symgo

import (
	"fmt"
	"strings"
)

// Op is a term operator.
type Op uint8

const (
	OpConst Op = iota // W>0: bit-vector constant C; W==0: Boolean constant (C!=0)
	OpVar
	OpAdd
	OpSub
	OpMul
	OpUDiv
	OpSDiv
	OpURem
	OpSRem
	OpAnd
	OpOr
	OpXor
	OpBvNot
	OpNeg
	OpShl
	OpLShr
	OpAShr
	OpZExt    // C = source width
	OpSExt    // C = source width
	OpExtract // C = hi<<8 | lo
	OpIte     // args: cond, then, else
	OpEq      // Bool; args same sort (BV or Bool)
	OpULt
	OpULe
	OpSLt
	OpSLe
	OpBAnd
	OpBOr
	OpBNot
)

var opSMT = map[Op]string{
	OpAdd: "bvadd", OpSub: "bvsub", OpMul: "bvmul", OpUDiv: "bvudiv", OpSDiv: "bvsdiv",
	OpURem: "bvurem", OpSRem: "bvsrem", OpAnd: "bvand", OpOr: "bvor", OpXor: "bvxor",
	OpBvNot: "bvnot", OpNeg: "bvneg", OpShl: "bvshl", OpLShr: "bvlshr", OpAShr: "bvashr",
	OpIte: "ite", OpEq: "=", OpULt: "bvult", OpULe: "bvule", OpSLt: "bvslt", OpSLe: "bvsle",
	OpBAnd: "and", OpBOr: "or", OpBNot: "not",
}

// Term is a hash-consed SMT term. W is the bit width (0 = Bool).
type Term struct {
	ID      int
	Op      Op
	W       uint8
	C       uint64
	Name    string
	A       [3]*Term
	defined bool // emitted to the solver
}

func (t *Term) IsConst() bool { return t.Op == OpConst }
func (t *Term) IsBool() bool  { return t.W == 0 }

type termKey struct {
	op         Op
	w          uint8
	c          uint64
	name       string
	a0, a1, a2 int
}

// Table owns the terms of one worker.
type Table struct {
	terms map[termKey]*Term
	all   []*Term
	Vars  []*Term
	True  *Term
	False *Term
}

func NewTable() *Table {
	tt := &Table{terms: map[termKey]*Term{}}
	tt.True = tt.mk(OpConst, 0, 1, "", nil, nil, nil)
	tt.False = tt.mk(OpConst, 0, 0, "", nil, nil, nil)
	return tt
}

func id(t *Term) int {
	if t == nil {
		return -1
	}
	return t.ID
}

func (tt *Table) mk(op Op, w uint8, c uint64, name string, a0, a1, a2 *Term) *Term {
	k := termKey{op, w, c, name, id(a0), id(a1), id(a2)}
	if t, ok := tt.terms[k]; ok {
		return t
	}
	t := &Term{ID: len(tt.all), Op: op, W: w, C: c, Name: name, A: [3]*Term{a0, a1, a2}}
	tt.terms[k] = t
	tt.all = append(tt.all, t)
	if op == OpVar {
		tt.Vars = append(tt.Vars, t)
	}
	return t
}

func mask(w uint8) uint64 {
	if w >= 64 {
		return ^uint64(0)
	}
	return (uint64(1) << w) - 1
}

func sext(c uint64, w uint8) int64 {
	if w >= 64 {
		return int64(c)
	}
	sh := 64 - uint(w)
	return int64(c<<sh) >> sh
}

func (tt *Table) Const(w uint8, c uint64) *Term {
	if w == 0 {
		panic("Const: width 0")
	}
	return tt.mk(OpConst, w, c&mask(w), "", nil, nil, nil)
}

func (tt *Table) Bool(b bool) *Term {
	if b {
		return tt.True
	}
	return tt.False
}

// Var returns the (unique) variable of that name and width (0 = Bool).
func (tt *Table) Var(name string, w uint8) *Term {
	return tt.mk(OpVar, w, 0, name, nil, nil, nil)
}

func evalBin(op Op, w uint8, a, b uint64) uint64 {
	m := mask(w)
	switch op {
	case OpAdd:
		return (a + b) & m
	case OpSub:
		return (a - b) & m
	case OpMul:
		return (a * b) & m
	case OpUDiv:
		if b == 0 {
			return m
		}
		return (a / b) & m
	case OpURem:
		if b == 0 {
			return a
		}
		return (a % b) & m
	case OpSDiv:
		sa, sb := sext(a, w), sext(b, w)
		if sb == 0 {
			if sa < 0 {
				return 1
			}
			return m
		}
		if sb == -1 {
			return uint64(-sa) & m
		}
		return uint64(sa/sb) & m
	case OpSRem:
		sa, sb := sext(a, w), sext(b, w)
		if sb == 0 {
			return a
		}
		if sb == -1 {
			return 0
		}
		return uint64(sa%sb) & m
	case OpAnd:
		return a & b
	case OpOr:
		return a | b
	case OpXor:
		return a ^ b
	case OpShl:
		if b >= uint64(w) {
			return 0
		}
		return (a << b) & m
	case OpLShr:
		if b >= uint64(w) {
			return 0
		}
		return a >> b
	case OpAShr:
		sa := sext(a, w)
		if b >= uint64(w) {
			b = uint64(w) - 1
		}
		return uint64(sa>>b) & m
	}
	panic("evalBin")
}

func evalCmp(op Op, w uint8, a, b uint64) bool {
	switch op {
	case OpEq:
		return a == b
	case OpULt:
		return a < b
	case OpULe:
		return a <= b
	case OpSLt:
		return sext(a, w) < sext(b, w)
	case OpSLe:
		return sext(a, w) <= sext(b, w)
	}
	panic("evalCmp")
}

// Bin builds a bit-vector binary operation.
func (tt *Table) Bin(op Op, a, b *Term) *Term {
	if a.W != b.W || a.W == 0 {
		panic(fmt.Sprintf("Bin %v: widths %d %d", op, a.W, b.W))
	}
	w := a.W
	if a.IsConst() && b.IsConst() {
		return tt.Const(w, evalBin(op, w, a.C, b.C))
	}
	// canonical order for commutative ops: constant last
	switch op {
	case OpAdd, OpMul, OpAnd, OpOr, OpXor:
		if a.IsConst() || (!b.IsConst() && a.ID > b.ID) {
			a, b = b, a
		}
	}
	if b.IsConst() {
		switch op {
		case OpAdd, OpSub, OpOr, OpXor, OpShl, OpLShr, OpAShr:
			if b.C == 0 {
				return a
			}
		case OpMul:
			if b.C == 0 {
				return b
			}
			if b.C == 1 {
				return a
			}
		case OpAnd:
			if b.C == 0 {
				return b
			}
			if b.C == mask(w) {
				return a
			}
		case OpUDiv, OpSDiv:
			if b.C == 1 {
				return a
			}
		}
		// (x + c1) + c2
		if op == OpAdd && a.Op == OpAdd && a.A[1].IsConst() {
			return tt.Bin(OpAdd, a.A[0], tt.Const(w, a.A[1].C+b.C))
		}
		if op == OpSub {
			return tt.Bin(OpAdd, a, tt.Const(w, -b.C))
		}
	}
	if a == b {
		switch op {
		case OpSub, OpXor:
			return tt.Const(w, 0)
		case OpAnd, OpOr:
			return a
		}
	}
	return tt.mk(op, w, 0, "", a, b, nil)
}

func (tt *Table) BvNot(a *Term) *Term {
	if a.IsConst() {
		return tt.Const(a.W, ^a.C)
	}
	return tt.mk(OpBvNot, a.W, 0, "", a, nil, nil)
}

func (tt *Table) Neg(a *Term) *Term {
	if a.IsConst() {
		return tt.Const(a.W, -a.C)
	}
	return tt.mk(OpNeg, a.W, 0, "", a, nil, nil)
}

func (tt *Table) ZExt(a *Term, w uint8) *Term {
	if w == a.W {
		return a
	}
	if w < a.W {
		return tt.Extract(a, w-1, 0)
	}
	if a.IsConst() {
		return tt.Const(w, a.C)
	}
	return tt.mk(OpZExt, w, uint64(a.W), "", a, nil, nil)
}

func (tt *Table) SExt(a *Term, w uint8) *Term {
	if w == a.W {
		return a
	}
	if w < a.W {
		return tt.Extract(a, w-1, 0)
	}
	if a.IsConst() {
		return tt.Const(w, uint64(sext(a.C, a.W)))
	}
	return tt.mk(OpSExt, w, uint64(a.W), "", a, nil, nil)
}

func (tt *Table) Extract(a *Term, hi, lo uint8) *Term {
	w := hi - lo + 1
	if lo == 0 && w == a.W {
		return a
	}
	if a.IsConst() {
		return tt.Const(w, a.C>>lo)
	}
	// extract of an extension that stays inside the source
	if (a.Op == OpZExt || a.Op == OpSExt) && hi < a.A[0].W {
		return tt.Extract(a.A[0], hi, lo)
	}
	if (a.Op == OpZExt || a.Op == OpSExt) && lo == 0 && w >= a.A[0].W {
		if a.Op == OpZExt {
			return tt.ZExt(a.A[0], w)
		}
		return tt.SExt(a.A[0], w)
	}
	return tt.mk(OpExtract, w, uint64(hi)<<8|uint64(lo), "", a, nil, nil)
}

// Cmp builds a comparison (OpEq, OpULt, OpULe, OpSLt, OpSLe).
func (tt *Table) Cmp(op Op, a, b *Term) *Term {
	if a.W != b.W {
		panic(fmt.Sprintf("Cmp: widths %d %d", a.W, b.W))
	}
	if a.W == 0 {
		if op != OpEq {
			panic("Cmp on Bool")
		}
		return tt.Iff(a, b)
	}
	if a.IsConst() && b.IsConst() {
		return tt.Bool(evalCmp(op, a.W, a.C, b.C))
	}
	if a == b {
		return tt.Bool(op == OpEq || op == OpULe || op == OpSLe)
	}
	if op == OpEq {
		if a.IsConst() || (!b.IsConst() && a.ID > b.ID) {
			a, b = b, a
		}
		// zext(x) == c  with c outside the source range
		if b.IsConst() && a.Op == OpZExt && b.C > mask(a.A[0].W) {
			return tt.False
		}
		if b.IsConst() && a.Op == OpZExt {
			return tt.Cmp(OpEq, a.A[0], tt.Const(a.A[0].W, b.C))
		}
		// ite(c, k1, k2) == k
		if b.IsConst() && a.Op == OpIte && a.A[1].IsConst() && a.A[2].IsConst() {
			t1 := a.A[1].C == b.C
			t2 := a.A[2].C == b.C
			switch {
			case t1 && t2:
				return tt.True
			case t1:
				return a.A[0]
			case t2:
				return tt.Not(a.A[0])
			default:
				return tt.False
			}
		}
	}
	return tt.mk(op, 0, 0, "", a, b, nil)
}

func (tt *Table) Not(a *Term) *Term {
	if a.W != 0 {
		panic("Not on BV")
	}
	if a.IsConst() {
		return tt.Bool(a.C == 0)
	}
	if a.Op == OpBNot {
		return a.A[0]
	}
	return tt.mk(OpBNot, 0, 0, "", a, nil, nil)
}

func (tt *Table) And(a, b *Term) *Term {
	if a.IsConst() {
		if a.C != 0 {
			return b
		}
		return a
	}
	if b.IsConst() {
		if b.C != 0 {
			return a
		}
		return b
	}
	if a == b {
		return a
	}
	if tt.Not(a) == b {
		return tt.False
	}
	if a.ID > b.ID {
		a, b = b, a
	}
	return tt.mk(OpBAnd, 0, 0, "", a, b, nil)
}

func (tt *Table) Or(a, b *Term) *Term {
	if a.IsConst() {
		if a.C != 0 {
			return a
		}
		return b
	}
	if b.IsConst() {
		if b.C != 0 {
			return b
		}
		return a
	}
	if a == b {
		return a
	}
	if tt.Not(a) == b {
		return tt.True
	}
	if a.ID > b.ID {
		a, b = b, a
	}
	return tt.mk(OpBOr, 0, 0, "", a, b, nil)
}

func (tt *Table) Iff(a, b *Term) *Term {
	if a.IsConst() {
		if a.C != 0 {
			return b
		}
		return tt.Not(b)
	}
	if b.IsConst() {
		if b.C != 0 {
			return a
		}
		return tt.Not(a)
	}
	if a == b {
		return tt.True
	}
	if a.ID > b.ID {
		a, b = b, a
	}
	return tt.mk(OpEq, 0, 0, "", a, b, nil)
}

func (tt *Table) Ite(c, a, b *Term) *Term {
	if c.IsConst() {
		if c.C != 0 {
			return a
		}
		return b
	}
	if a == b {
		return a
	}
	if a.W != b.W {
		panic("Ite: sorts differ")
	}
	if a.W == 0 {
		// Boolean ite
		if a.IsConst() && b.IsConst() {
			if a.C != 0 {
				return c
			}
			return tt.Not(c)
		}
		if a.IsConst() {
			if a.C != 0 {
				return tt.Or(c, b)
			}
			return tt.And(tt.Not(c), b)
		}
		if b.IsConst() {
			if b.C != 0 {
				return tt.Or(tt.Not(c), a)
			}
			return tt.And(c, a)
		}
	}
	if c.Op == OpBNot {
		return tt.mk(OpIte, a.W, 0, "", c.A[0], b, a)
	}
	return tt.mk(OpIte, a.W, 0, "", c, a, b)
}

// ---- evaluation under a model ----

// Model maps variable names to values (Bool: 0/1).
type Model map[string]uint64

type evaluator struct {
	m    Model
	memo map[*Term]uint64
}

func (tt *Table) NewEval(m Model) *evaluator {
	return &evaluator{m: m, memo: map[*Term]uint64{}}
}

func (e *evaluator) Eval(t *Term) uint64 {
	switch t.Op {
	case OpConst:
		return t.C
	case OpVar:
		return e.m[t.Name] & mask64(t.W)
	}
	if v, ok := e.memo[t]; ok {
		return v
	}
	var v uint64
	switch t.Op {
	case OpAdd, OpSub, OpMul, OpUDiv, OpSDiv, OpURem, OpSRem, OpAnd, OpOr, OpXor, OpShl, OpLShr, OpAShr:
		v = evalBin(t.Op, t.W, e.Eval(t.A[0]), e.Eval(t.A[1]))
	case OpBvNot:
		v = ^e.Eval(t.A[0]) & mask(t.W)
	case OpNeg:
		v = -e.Eval(t.A[0]) & mask(t.W)
	case OpZExt:
		v = e.Eval(t.A[0])
	case OpSExt:
		v = uint64(sext(e.Eval(t.A[0]), t.A[0].W)) & mask(t.W)
	case OpExtract:
		lo := uint8(t.C & 0xff)
		v = (e.Eval(t.A[0]) >> lo) & mask(t.W)
	case OpIte:
		if e.Eval(t.A[0]) != 0 {
			v = e.Eval(t.A[1])
		} else {
			v = e.Eval(t.A[2])
		}
	case OpEq, OpULt, OpULe, OpSLt, OpSLe:
		if evalCmp(t.Op, t.A[0].W, e.Eval(t.A[0]), e.Eval(t.A[1])) {
			v = 1
		}
	case OpBAnd:
		if e.Eval(t.A[0]) != 0 && e.Eval(t.A[1]) != 0 {
			v = 1
		}
	case OpBOr:
		if e.Eval(t.A[0]) != 0 || e.Eval(t.A[1]) != 0 {
			v = 1
		}
	case OpBNot:
		if e.Eval(t.A[0]) == 0 {
			v = 1
		}
	default:
		panic("eval: op")
	}
	e.memo[t] = v
	return v
}

func mask64(w uint8) uint64 {
	if w == 0 {
		return 1
	}
	return mask(w)
}

// ---- SMT-LIB printing ----

func sortOf(w uint8) string {
	if w == 0 {
		return "Bool"
	}
	return fmt.Sprintf("(_ BitVec %d)", w)
}

func smtName(t *Term) string {
	switch t.Op {
	case OpConst:
		if t.W == 0 {
			if t.C != 0 {
				return "true"
			}
			return "false"
		}
		return fmt.Sprintf("(_ bv%d %d)", t.C, t.W)
	case OpVar:
		return "|" + t.Name + "|"
	}
	return fmt.Sprintf("$t%d", t.ID)
}

// defineCone appends the declarations and definitions t depends on that are
// not yet in seen (post-order), collecting the variables.
func (tt *Table) defineCone(sb *strings.Builder, t *Term, seen map[*Term]bool, vars *[]*Term) {
	if seen[t] || t.Op == OpConst {
		return
	}
	type fr struct {
		t *Term
		i int
	}
	stack := []fr{{t, 0}}
	for len(stack) > 0 {
		top := &stack[len(stack)-1]
		if seen[top.t] || top.t.Op == OpConst {
			stack = stack[:len(stack)-1]
			continue
		}
		if top.i < 3 && top.t.A[top.i] != nil {
			c := top.t.A[top.i]
			top.i++
			if !seen[c] && c.Op != OpConst {
				stack = append(stack, fr{c, 0})
			}
			continue
		}
		x := top.t
		seen[x] = true
		stack = stack[:len(stack)-1]
		if x.Op == OpVar {
			fmt.Fprintf(sb, "(declare-const %s %s)\n", smtName(x), sortOf(x.W))
			*vars = append(*vars, x)
			continue
		}
		fmt.Fprintf(sb, "(define-fun %s () %s ", smtName(x), sortOf(x.W))
		switch x.Op {
		case OpZExt:
			fmt.Fprintf(sb, "((_ zero_extend %d) %s)", x.W-uint8(x.C), smtName(x.A[0]))
		case OpSExt:
			fmt.Fprintf(sb, "((_ sign_extend %d) %s)", x.W-uint8(x.C), smtName(x.A[0]))
		case OpExtract:
			fmt.Fprintf(sb, "((_ extract %d %d) %s)", x.C>>8, x.C&0xff, smtName(x.A[0]))
		default:
			sb.WriteString("(" + opSMT[x.Op])
			for _, a := range x.A {
				if a != nil {
					sb.WriteString(" " + smtName(a))
				}
			}
			sb.WriteString(")")
		}
		sb.WriteString(")\n")
	}
}

// String renders a term for humans (bounded depth).
func (t *Term) String() string { return t.str(4) }

func (t *Term) str(d int) string {
	switch t.Op {
	case OpConst:
		if t.W == 0 {
			return fmt.Sprint(t.C != 0)
		}
		return fmt.Sprint(t.C)
	case OpVar:
		return t.Name
	}
	if d == 0 {
		return fmt.Sprintf("$t%d", t.ID)
	}
	s := "(" + opSMT[t.Op]
	switch t.Op {
	case OpZExt:
		s = "(zext"
	case OpSExt:
		s = "(sext"
	case OpExtract:
		s = fmt.Sprintf("(extract[%d:%d]", t.C>>8, t.C&0xff)
	}
	for _, a := range t.A {
		if a != nil {
			s += " " + a.str(d-1)
		}
	}
	return s + ")"
}
