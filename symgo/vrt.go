package symgo

import (
	"fmt"
	"strings"

	"golang.org/x/tools/go/ssa"
)

// VrtSource is the native twin of the harness vocabulary. Under symgo the
// functions are intercepted by name (package name "vrt"); natively inputs come
// from the JSON file named by $VRT_REPLAY.
const VrtSource = `// Code written by the verification framework; not part of lox.
package vrt

import (
	"encoding/json"
	"fmt"
	"os"
	"unicode/utf8"
)

type replay struct {
	Inputs map[string]uint64 ` + "`json:\"inputs\"`" + `
	Params map[string]int    ` + "`json:\"params\"`" + `
}

var rp *replay
var Failed []string
var Log []string
var Reached []string

func load() {
	if rp != nil {
		return
	}
	rp = &replay{Inputs: map[string]uint64{}}
	if p := os.Getenv("VRT_REPLAY"); p != "" {
		data, err := os.ReadFile(p)
		if err != nil {
			panic(err)
		}
		if err := json.Unmarshal(data, rp); err != nil {
			panic(err)
		}
	}
}

func in(name string) uint64 { load(); return rp.Inputs[name] }

type assumeFailed struct{}

func Int(name string) int       { return int(in(name)) }
func Int64(name string) int64   { return int64(in(name)) }
func Int32(name string) int32   { return int32(uint32(in(name))) }
func Uint32(name string) uint32 { return uint32(in(name)) }
func Uint64(name string) uint64 { return in(name) }
func Rune(name string) rune     { return rune(uint32(in(name))) }
func Byte(name string) byte     { return byte(in(name)) }
func Bool(name string) bool     { return in(name) != 0 }
func Symbolic() bool            { return false }

// ModelDecodeRune is the engine's model of utf8.DecodeRune under symgo and the
// real function natively.
func ModelDecodeRune(p []byte) (rune, int) { return utf8.DecodeRune(p) }
func Param(name string, def int) int {
	load()
	if v, ok := rp.Params[name]; ok {
		return v
	}
	return def
}
func Concretize(x int) int      { return x }

func Assume(c bool) {
	if !c {
		panic(assumeFailed{})
	}
}
func Assert(c bool, id string) {
	if !c {
		Failed = append(Failed, id)
	}
}
func Reach(id string)            { Reached = append(Reached, id) }
func And(a, b bool) bool         { return a && b }
func Or(a, b bool) bool          { return a || b }
func Not(a bool) bool            { return !a }
func Implies(a, b bool) bool     { return !a || b }
func Iff(a, b bool) bool         { return a == b }
func IteInt(c bool, a, b int) int {
	if c {
		return a
	}
	return b
}
func IteInt32(c bool, a, b int32) int32 {
	if c {
		return a
	}
	return b
}
func IteBool(c bool, a, b bool) bool {
	if c {
		return a
	}
	return b
}
func Name(prefix string, i int) string { return fmt.Sprintf("%s%d", prefix, i) }
func Observe(tag string, args ...any) {
	s := tag + ":"
	for i, a := range args {
		if i > 0 {
			s += " "
		}
		s += fmt.Sprint(a)
	}
	Log = append(Log, s)
}

// Run executes a harness natively and reports: "ok", "assume" (inputs violate
// an assumption), "fail:<ids>" or "panic:<msg>".
func Run(h func()) (verdict string) {
	Failed, Log, Reached = nil, nil, nil
	defer func() {
		if e := recover(); e != nil {
			if _, ok := e.(assumeFailed); ok {
				verdict = "assume"
				return
			}
			verdict = fmt.Sprintf("panic:%v", e)
		}
	}()
	h()
	if len(Failed) > 0 {
		return fmt.Sprintf("fail:%v", Failed)
	}
	return "ok"
}
`

var vrtFns map[string]extFn

func init() {
	fresh := func(w uint8) extFn {
		return func(in *Interp, fn *ssa.Function, a []Value) Value {
			name := argStr(in, a[0])
			if in.Ex == nil {
				panic(unsupported("vrt input outside exploration: " + name))
			}
			return in.FreshInt(name, w)
		}
	}
	b2 := func(f func(in *Interp, x, y Bool) Bool) extFn {
		return func(in *Interp, fn *ssa.Function, a []Value) Value {
			return f(in, a[0].(Bool), a[1].(Bool))
		}
	}
	vrtFns = map[string]extFn{
		"Int": fresh(64), "Int64": fresh(64), "Uint64": fresh(64),
		"Int32": fresh(32), "Uint32": fresh(32), "Rune": fresh(32),
		"Byte": fresh(8),
		"Bool": func(in *Interp, fn *ssa.Function, a []Value) Value {
			return in.FreshBool(argStr(in, a[0]))
		},
		"Param": func(in *Interp, fn *ssa.Function, a []Value) Value {
			if v, ok := in.Params[argStr(in, a[0])]; ok {
				return intRet(v)
			}
			return a[1]
		},
		"Symbolic": func(in *Interp, fn *ssa.Function, a []Value) Value { return mkBool(true) },
		"Concretize": func(in *Interp, fn *ssa.Function, a []Value) Value {
			i := a[0].(Int)
			if i.T == nil {
				return i
			}
			return mkInt(i.W, in.pickValue(i.T))
		},
		"Assume": func(in *Interp, fn *ssa.Function, a []Value) Value {
			in.Assume(a[0].(Bool))
			return nil
		},
		"Assert": func(in *Interp, fn *ssa.Function, a []Value) Value {
			in.Assert(a[0].(Bool), argStr(in, a[1]))
			return nil
		},
		"Reach": func(in *Interp, fn *ssa.Function, a []Value) Value {
			in.Reach(argStr(in, a[0]))
			return nil
		},
		"And": b2(func(in *Interp, x, y Bool) Bool { return in.boolAnd(x, y) }),
		"Or":  b2(func(in *Interp, x, y Bool) Bool { return in.boolOr(x, y) }),
		"Implies": b2(func(in *Interp, x, y Bool) Bool {
			return in.boolOr(in.boolNot(x), y)
		}),
		"Iff": b2(func(in *Interp, x, y Bool) Bool {
			return in.eqValue(x, y)
		}),
		"Not": func(in *Interp, fn *ssa.Function, a []Value) Value { return in.boolNot(a[0].(Bool)) },
		"IteInt": func(in *Interp, fn *ssa.Function, a []Value) Value {
			return in.iteValue(in.TT.BoolTerm(a[0].(Bool)), a[1], a[2])
		},
		"IteInt32": func(in *Interp, fn *ssa.Function, a []Value) Value {
			return in.iteValue(in.TT.BoolTerm(a[0].(Bool)), a[1], a[2])
		},
		"IteBool": func(in *Interp, fn *ssa.Function, a []Value) Value {
			return in.iteValue(in.TT.BoolTerm(a[0].(Bool)), a[1], a[2])
		},
		"Name": func(in *Interp, fn *ssa.Function, a []Value) Value {
			return fmt.Sprintf("%s%d", argStr(in, a[0]), a[1].(Int).Signed())
		},
		"Observe": func(in *Interp, fn *ssa.Function, a []Value) Value {
			var parts []string
			if s, ok := a[1].(Slice); ok {
				for _, x := range s.A {
					parts = append(parts, fmt.Sprint(in.nativeArg(x)))
				}
			}
			line := argStr(in, a[0]) + ":" + strings.Join(parts, " ")
			in.Observed = append(in.Observed, line)
			return nil
		},
	}
}

// monitor records the memory footprint (cells read and written) for C18.
type monitor struct {
	reads  map[*Value]bool
	writes map[*Value]bool
}

func (m *monitor) read(p *Value)  { m.reads[p] = true }
func (m *monitor) write(p *Value) { m.writes[p] = true }
