package symgo

import (
	"fmt"
	"os"
	"strings"

	"golang.org/x/tools/go/ssa"
)

// VrtSource is the native twin of the harness vocabulary. Under symgo the
// functions are intercepted by name (package name "vrt"); natively inputs come
// from the JSON file named by $VRT_REPLAY.
const VrtSource = `// Code written by the verification framework; not part of lox.
package vrt

import (
	"encoding/json"
	"fmt"
	"os"
	"unicode/utf8"
)

type replay struct {
	Inputs map[string]uint64 ` + "`json:\"inputs\"`" + `
	Params map[string]int    ` + "`json:\"params\"`" + `
}

var rp *replay
var Failed []string
var Log []string
var Reached []string

func load() {
	if rp != nil {
		return
	}
	rp = &replay{Inputs: map[string]uint64{}}
	if p := os.Getenv("VRT_REPLAY"); p != "" {
		data, err := os.ReadFile(p)
		if err != nil {
			panic(err)
		}
		if err := json.Unmarshal(data, rp); err != nil {
			panic(err)
		}
	}
}

func in(name string) uint64 { load(); return rp.Inputs[name] }

type assumeFailed struct{}

func Int(name string) int       { return int(in(name)) }
func Int64(name string) int64   { return int64(in(name)) }
func Int32(name string) int32   { return int32(uint32(in(name))) }
func Uint32(name string) uint32 { return uint32(in(name)) }
func Uint64(name string) uint64 { return in(name) }
func Rune(name string) rune     { return rune(uint32(in(name))) }
func Byte(name string) byte     { return byte(in(name)) }
func Bool(name string) bool     { return in(name) != 0 }
func Symbolic() bool            { return false }

// HostVar: under symgo the value most recently handed to the template engine
// under that name (jet.VarMap.Set); natively nil (the real engine renders).
func HostVar(name string) any { return nil }

// Twin runs two instances. Under symgo: one after the other, each under a
// memory monitor that records every cell read and written. Natively: on two
// goroutines at the same time (build with -race to see data races).
func Twin(a, b func()) {
	done := make(chan bool, 2)
	go func() { a(); done <- true }()
	go func() { b(); done <- true }()
	<-done
	<-done
}

// MonitorShared: number of cells written by one instance and read or written
// by the other (0 natively). MonitorGlobalWrites: writes to cells reachable
// from package-level variables.
func MonitorShared() int       { return 0 }
func MonitorGlobalWrites() int { return 0 }

// TempDir / WriteFile: a scratch directory. Under symgo the files live in a
// virtual file system that os.ReadFile and filepath.Glob consult (contents may
// be symbolic); natively they are real files.
func TempDir() string {
	d, err := os.MkdirTemp("", "vrt-")
	if err != nil {
		panic(err)
	}
	return d
}

func WriteFile(name string, data []byte) {
	if err := os.WriteFile(name, data, 0644); err != nil {
		panic(err)
	}
}

func RemoveAll(dir string) { os.RemoveAll(dir) }

// MapOrder(1): from now on every range over a built-in map iterates in an
// arbitrary (solver-chosen) order; MapOrder(0): insertion order. Natively a
// no-op (Go picks its own order).
func MapOrder(mode int) {}

// ModelDecodeRune is the engine's model of utf8.DecodeRune under symgo and the
// real function natively.
func ModelDecodeRune(p []byte) (rune, int) { return utf8.DecodeRune(p) }
func Param(name string, def int) int {
	load()
	if v, ok := rp.Params[name]; ok {
		return v
	}
	return def
}
func Concretize(x int) int      { return x }

func Assume(c bool) {
	if !c {
		panic(assumeFailed{})
	}
}
func Assert(c bool, id string) {
	if !c {
		Failed = append(Failed, id)
	}
}
func Reach(id string)            { Reached = append(Reached, id) }
func And(a, b bool) bool         { return a && b }
func Or(a, b bool) bool          { return a || b }
func Not(a bool) bool            { return !a }
func Implies(a, b bool) bool     { return !a || b }
func Iff(a, b bool) bool         { return a == b }
func IteInt(c bool, a, b int) int {
	if c {
		return a
	}
	return b
}
func IteInt32(c bool, a, b int32) int32 {
	if c {
		return a
	}
	return b
}
func IteBool(c bool, a, b bool) bool {
	if c {
		return a
	}
	return b
}
func Name(prefix string, i int) string { return fmt.Sprintf("%s%d", prefix, i) }
func Observe(tag string, args ...any) {
	s := tag + ":"
	for i, a := range args {
		if i > 0 {
			s += " "
		}
		s += fmt.Sprint(a)
	}
	Log = append(Log, s)
}

// Run executes a harness natively and reports: "ok", "assume" (inputs violate
// an assumption), "fail:<ids>" or "panic:<msg>".
func Run(h func()) (verdict string) {
	Failed, Log, Reached = nil, nil, nil
	defer func() {
		if e := recover(); e != nil {
			if _, ok := e.(assumeFailed); ok {
				verdict = "assume"
				return
			}
			verdict = fmt.Sprintf("panic:%v", e)
		}
	}()
	h()
	if len(Failed) > 0 {
		return fmt.Sprintf("fail:%v", Failed)
	}
	return "ok"
}
`

var vrtFns map[string]extFn

func init() {
	fresh := func(w uint8) extFn {
		return func(in *Interp, fn *ssa.Function, a []Value) Value {
			name := argStr(in, a[0])
			if in.Ex == nil {
				panic(unsupported("vrt input outside exploration: " + name))
			}
			return in.FreshInt(name, w)
		}
	}
	b2 := func(f func(in *Interp, x, y Bool) Bool) extFn {
		return func(in *Interp, fn *ssa.Function, a []Value) Value {
			return f(in, a[0].(Bool), a[1].(Bool))
		}
	}
	vrtFns = map[string]extFn{
		"Int": fresh(64), "Int64": fresh(64), "Uint64": fresh(64),
		"Int32": fresh(32), "Uint32": fresh(32), "Rune": fresh(32),
		"Byte": fresh(8),
		"Bool": func(in *Interp, fn *ssa.Function, a []Value) Value {
			return in.FreshBool(argStr(in, a[0]))
		},
		"Param": func(in *Interp, fn *ssa.Function, a []Value) Value {
			if v, ok := in.Params[argStr(in, a[0])]; ok {
				return intRet(v)
			}
			return a[1]
		},
		"Twin": func(in *Interp, fn *ssa.Function, a []Value) Value {
			in.globalCells = in.reachableFromGlobals()
			for k := 0; k < 2; k++ {
				in.mons[k] = &monitor{reads: map[any]bool{}, writes: map[any]bool{}}
				in.mon = in.mons[k]
				in.callValue(a[k], nil, nil)
				in.mon = nil
			}
			return nil
		},
		"MonitorShared": func(in *Interp, fn *ssa.Function, a []Value) Value {
			n := 0
			for k := 0; k < 2; k++ {
				me, other := in.mons[k], in.mons[1-k]
				if me == nil || other == nil {
					continue
				}
				for c := range me.writes {
					if other.reads[c] || other.writes[c] {
						n++
					}
				}
			}
			return intRet(n)
		},
		"MonitorGlobalWrites": func(in *Interp, fn *ssa.Function, a []Value) Value {
			n := 0
			for k := 0; k < 2; k++ {
				if in.mons[k] == nil {
					continue
				}
				for c := range in.mons[k].writes {
					if in.globalCells[c] {
						n++
						if os.Getenv("SYMGO_DEBUG") != "" {
							if p, ok := c.(*Value); ok {
								fmt.Fprintf(os.Stderr, "[monitor] instance %d wrote a cell reachable from package-level variables; it now holds a %T\n", k, *p)
							} else {
								fmt.Fprintf(os.Stderr, "[monitor] instance %d wrote %T reachable from package-level variables\n", k, c)
							}
						}
					}
				}
			}
			return intRet(n)
		},
		"TempDir": func(in *Interp, fn *ssa.Function, a []Value) Value { return "/vfs" },
		"WriteFile": func(in *Interp, fn *ssa.Function, a []Value) Value {
			if in.vfs == nil {
				in.vfs = map[string]Slice{}
			}
			name := argStr(in, a[0])
			src := a[1].(Slice)
			cp := make([]Value, len(src.A))
			copy(cp, src.A)
			in.vfs[name] = Slice{A: cp}
			in.vfsOrder = append(in.vfsOrder, name)
			return nil
		},
		"RemoveAll": func(in *Interp, fn *ssa.Function, a []Value) Value { return nil },
		"MapOrder": func(in *Interp, fn *ssa.Function, a []Value) Value {
			in.mapOrderMode = int(a[0].(Int).C)
			return nil
		},
		"Symbolic": func(in *Interp, fn *ssa.Function, a []Value) Value { return mkBool(true) },
		"HostVar": func(in *Interp, fn *ssa.Function, a []Value) Value {
			v, ok := in.hostVars[argStr(in, a[0])]
			if !ok {
				return Iface{}
			}
			return v
		},
		"Concretize": func(in *Interp, fn *ssa.Function, a []Value) Value {
			i := a[0].(Int)
			if i.T == nil {
				return i
			}
			return mkInt(i.W, in.pickValue(i.T))
		},
		"Assume": func(in *Interp, fn *ssa.Function, a []Value) Value {
			in.Assume(a[0].(Bool))
			return nil
		},
		"Assert": func(in *Interp, fn *ssa.Function, a []Value) Value {
			in.Assert(a[0].(Bool), argStr(in, a[1]))
			return nil
		},
		"Reach": func(in *Interp, fn *ssa.Function, a []Value) Value {
			in.Reach(argStr(in, a[0]))
			return nil
		},
		"And": b2(func(in *Interp, x, y Bool) Bool { return in.boolAnd(x, y) }),
		"Or":  b2(func(in *Interp, x, y Bool) Bool { return in.boolOr(x, y) }),
		"Implies": b2(func(in *Interp, x, y Bool) Bool {
			return in.boolOr(in.boolNot(x), y)
		}),
		"Iff": b2(func(in *Interp, x, y Bool) Bool {
			return in.eqValue(x, y)
		}),
		"Not": func(in *Interp, fn *ssa.Function, a []Value) Value { return in.boolNot(a[0].(Bool)) },
		"IteInt": func(in *Interp, fn *ssa.Function, a []Value) Value {
			return in.iteValue(in.TT.BoolTerm(a[0].(Bool)), a[1], a[2])
		},
		"IteInt32": func(in *Interp, fn *ssa.Function, a []Value) Value {
			return in.iteValue(in.TT.BoolTerm(a[0].(Bool)), a[1], a[2])
		},
		"IteBool": func(in *Interp, fn *ssa.Function, a []Value) Value {
			return in.iteValue(in.TT.BoolTerm(a[0].(Bool)), a[1], a[2])
		},
		"Name": func(in *Interp, fn *ssa.Function, a []Value) Value {
			return fmt.Sprintf("%s%d", argStr(in, a[0]), a[1].(Int).Signed())
		},
		"Observe": func(in *Interp, fn *ssa.Function, a []Value) Value {
			var parts []string
			if s, ok := a[1].(Slice); ok {
				for _, x := range s.A {
					parts = append(parts, fmt.Sprint(in.nativeArg(x)))
				}
			}
			line := argStr(in, a[0]) + ":" + strings.Join(parts, " ")
			in.Observed = append(in.Observed, line)
			return nil
		},
	}
}

// monitor records the memory footprint (cells read and written) for C18.
// Keys are *Value cells and *Map objects.
type monitor struct {
	reads  map[any]bool
	writes map[any]bool
}

func (m *monitor) read(p any)  { touch(m.reads, p) }
func (m *monitor) write(p any) { touch(m.writes, p) }

// touch records a cell and, for aggregates stored in it, every nested cell
// (field and element pointers alias them).
func touch(set map[any]bool, p any) {
	set[p] = true
	if c, ok := p.(*Value); ok && c != nil {
		switch v := (*c).(type) {
		case Struct:
			for i := range v {
				touch(set, &v[i])
			}
		case Array:
			for i := range v {
				touch(set, &v[i])
			}
		}
	}
}

// reachableFromGlobals collects every cell and map reachable from the
// package-level variables of non-standard packages.
func (in *Interp) reachableFromGlobals() map[any]bool {
	seen := map[any]bool{}
	var walk func(v Value)
	walk = func(v Value) {
		switch v := v.(type) {
		case *Value:
			if v == nil || seen[v] {
				return
			}
			seen[v] = true
			walk(*v)
		case Struct:
			for i := range v {
				seen[&v[i]] = true
				walk(v[i])
			}
		case Array:
			for i := range v {
				seen[&v[i]] = true
				walk(v[i])
			}
		case Slice:
			full := v.A[:cap(v.A)]
			for i := range full {
				seen[&full[i]] = true
				walk(full[i])
			}
		case *Map:
			if v == nil || seen[v] {
				return
			}
			seen[v] = true
			for i := range v.keys {
				walk(v.keys[i])
				walk(v.vals[i])
			}
		case Iface:
			walk(v.V)
		case *Closure:
			for _, e := range v.Env {
				walk(e)
			}
		}
	}
	for g, cell := range in.globals {
		if g.Pkg != nil && in.P.runsInit(g.Pkg.Pkg.Path()) && !in.P.Std[g.Pkg.Pkg.Path()] {
			seen[cell] = true
			walk(*cell)
		}
	}
	return seen
}
