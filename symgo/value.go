package symgo

import (
	"fmt"
	"go/types"
	"strings"
	"unsafe"

	"golang.org/x/tools/go/ssa"
)

// Value is any interpreter value:
//
//	Int, Bool, float64, string, SymStr, *Value (pointer), SymRef, Struct, Array,
//	Slice, *Map, Iface, *ssa.Function, *Closure, *ssa.Builtin, Tuple, *Native, nil
type Value interface{}

// Int is an integer of width W; T==nil means concrete value C (truncated to W).
// Signedness comes from the Go type at the use site.
type Int struct {
	T *Term
	C uint64
	W uint8
}

// Bool is a Boolean; T==nil means concrete.
type Bool struct {
	T *Term
	C bool
}

// SymStr is a string (or the content of a string) with symbolic bytes; its
// length is concrete.
type SymStr []Int

type Struct []Value
type Array []Value

// Slice is a Go slice; nil slice = Slice{A: nil}.
type Slice struct {
	A []Value
}

// SymRef is a pseudo-pointer &base[idx] with a symbolic index into cells of
// scalar type; loads become ite chains, stores conditional updates.
type SymRef struct {
	Cells []Value
	Idx   *Term // width 64
}

type Iface struct {
	T types.Type // dynamic type; nil for the nil interface
	V Value
}

type Tuple []Value

type Closure struct {
	Fn  *ssa.Function
	Env []Value
}

// Native wraps a host object (regexp, token.FileSet, ...).
type Native struct {
	V any
}

// Map is an insertion-ordered map. Keys with symbolic parts are found by a
// linear scan with decisions.
type Map struct {
	keys  []Value
	vals  []Value
	alive []bool
	index map[any]int // canonical concrete key → position
	n     int
	sym   bool // some key has symbolic content
	KeyT  types.Type
}

func newMap(kt types.Type) *Map {
	return &Map{index: map[any]int{}, KeyT: kt}
}

func (m *Map) Len() int { return m.n }

// ---- constructors ----

func mkInt(w uint8, c uint64) Int     { return Int{W: w, C: c & mask(w)} }
func mkBool(b bool) Bool              { return Bool{C: b} }
func (i Int) IsSym() bool             { return i.T != nil }
func (b Bool) IsSym() bool            { return b.T != nil }
func (i Int) Signed() int64           { return sext(i.C, i.W) }
func symInt(t *Term) Int {
	if t.IsConst() {
		return Int{W: t.W, C: t.C}
	}
	return Int{W: t.W, T: t}
}
func symBool(t *Term) Bool {
	if t.IsConst() {
		return Bool{C: t.C != 0}
	}
	return Bool{T: t}
}

func (tt *Table) IntTerm(i Int) *Term {
	if i.T != nil {
		return i.T
	}
	return tt.Const(i.W, i.C)
}

func (tt *Table) BoolTerm(b Bool) *Term {
	if b.T != nil {
		return b.T
	}
	return tt.Bool(b.C)
}

// ---- type helpers ----

func intWidth(t types.Type) (w uint8, signed bool, ok bool) {
	b, isb := t.Underlying().(*types.Basic)
	if !isb {
		return 0, false, false
	}
	switch b.Kind() {
	case types.Int8:
		return 8, true, true
	case types.Int16:
		return 16, true, true
	case types.Int32, types.UntypedRune:
		return 32, true, true
	case types.Int64, types.Int, types.UntypedInt:
		return 64, true, true
	case types.Uint8:
		return 8, false, true
	case types.Uint16:
		return 16, false, true
	case types.Uint32:
		return 32, false, true
	case types.Uint64, types.Uint, types.Uintptr:
		return 64, false, true
	}
	return 0, false, false
}

// zero returns the zero value of a type.
func zero(t types.Type) Value {
	switch t := t.(type) {
	case *types.Basic:
		if w, _, ok := intWidth(t); ok {
			return Int{W: w}
		}
		switch t.Kind() {
		case types.Bool, types.UntypedBool:
			return Bool{}
		case types.Float32, types.Float64, types.UntypedFloat:
			return float64(0)
		case types.String, types.UntypedString:
			return ""
		case types.UnsafePointer:
			return (*Value)(nil)
		case types.UntypedNil:
			return nil
		case types.Complex64, types.Complex128:
			return complex128(0)
		}
		panic(fmt.Sprintf("zero: basic %v", t))
	case *types.Pointer:
		return (*Value)(nil)
	case *types.Array:
		a := make(Array, t.Len())
		for i := range a {
			a[i] = zero(t.Elem())
		}
		return a
	case *types.Named:
		return zero(t.Underlying())
	case *types.Alias:
		return zero(types.Unalias(t))
	case *types.Interface:
		return Iface{}
	case *types.Slice:
		return Slice{}
	case *types.Struct:
		s := make(Struct, t.NumFields())
		for i := range s {
			s[i] = zero(t.Field(i).Type())
		}
		return s
	case *types.Tuple:
		if t.Len() == 1 {
			return zero(t.At(0).Type())
		}
		s := make(Tuple, t.Len())
		for i := range s {
			s[i] = zero(t.At(i).Type())
		}
		return s
	case *types.Chan:
		return (*Value)(nil)
	case *types.Map:
		return (*Map)(nil)
	case *types.Signature:
		return (*ssa.Function)(nil)
	case *types.TypeParam:
		panic("zero of type parameter " + t.String())
	}
	panic(fmt.Sprintf("zero: %T %v", t, t))
}

// copyVal copies aggregates (structs and arrays have value semantics).
func copyVal(v Value) Value {
	switch v := v.(type) {
	case Struct:
		c := make(Struct, len(v))
		for i, x := range v {
			c[i] = copyVal(x)
		}
		return c
	case Array:
		c := make(Array, len(v))
		for i, x := range v {
			c[i] = copyVal(x)
		}
		return c
	}
	return v
}

// storeInto writes v into the cell at addr, in place for aggregates so that
// interior pointers stay valid.
func storeInto(addr *Value, v Value) {
	switch v := v.(type) {
	case Struct:
		if dst, ok := (*addr).(Struct); ok && len(dst) == len(v) {
			for i := range v {
				storeInto(&dst[i], v[i])
			}
			return
		}
		*addr = copyVal(v)
	case Array:
		if dst, ok := (*addr).(Array); ok && len(dst) == len(v) {
			for i := range v {
				storeInto(&dst[i], v[i])
			}
			return
		}
		*addr = copyVal(v)
	default:
		*addr = v
	}
}

// ---- canonical keys for maps ----

func ptrID(p unsafe.Pointer) string { return fmt.Sprintf("%x", uintptr(p)) }

// keyOf returns a comparable canonical form of a concrete key, or ok=false if
// the key has symbolic content.
func keyOf(v Value) (any, bool) {
	switch v := v.(type) {
	case Int:
		if v.T != nil {
			return nil, false
		}
		return v.C, true // width is fixed by the map's key type
	case Bool:
		if v.T != nil {
			return nil, false
		}
		return v.C, true
	case string:
		return v, true
	case SymStr:
		if s, ok := v.Concrete(); ok {
			return s, true
		}
		return nil, false
	case float64:
		return v, true
	case *Value:
		return v, true
	case *Map:
		return v, true
	case *Native:
		return v, true
	case *ssa.Function:
		return v, true
	case nil:
		return nil, true
	case Struct, Array, Iface:
		var sb strings.Builder
		if !keyString(&sb, v) {
			return nil, false
		}
		return "\x00" + sb.String(), true
	}
	panic(fmt.Sprintf("keyOf: unhashable %T", v))
}

func keyString(sb *strings.Builder, v Value) bool {
	switch v := v.(type) {
	case Int:
		if v.T != nil {
			return false
		}
		fmt.Fprintf(sb, "i%d,", v.C)
	case Bool:
		if v.T != nil {
			return false
		}
		fmt.Fprintf(sb, "b%v,", v.C)
	case string:
		fmt.Fprintf(sb, "s%d:%s,", len(v), v)
	case SymStr:
		s, ok := v.Concrete()
		if !ok {
			return false
		}
		fmt.Fprintf(sb, "s%d:%s,", len(s), s)
	case float64:
		fmt.Fprintf(sb, "f%v,", v)
	case *Value:
		fmt.Fprintf(sb, "p%s,", ptrID(unsafe.Pointer(v)))
	case *Map:
		fmt.Fprintf(sb, "m%s,", ptrID(unsafe.Pointer(v)))
	case *Native:
		fmt.Fprintf(sb, "n%s,", ptrID(unsafe.Pointer(v)))
	case *ssa.Function:
		fmt.Fprintf(sb, "F%s,", ptrID(unsafe.Pointer(v)))
	case nil:
		sb.WriteString("nil,")
	case Struct:
		sb.WriteString("{")
		for _, x := range v {
			if !keyString(sb, x) {
				return false
			}
		}
		sb.WriteString("}")
	case Array:
		sb.WriteString("[")
		for _, x := range v {
			if !keyString(sb, x) {
				return false
			}
		}
		sb.WriteString("]")
	case Iface:
		if v.T == nil {
			sb.WriteString("I<nil>,")
		} else {
			fmt.Fprintf(sb, "I<%s>", typeKey(v.T))
			if !keyString(sb, v.V) {
				return false
			}
		}
	default:
		panic(fmt.Sprintf("keyString: unhashable %T", v))
	}
	return true
}

func typeKey(t types.Type) string { return types.TypeString(t, nil) }

// Concrete returns the string if all bytes are concrete.
func (s SymStr) Concrete() (string, bool) {
	b := make([]byte, len(s))
	for i, c := range s {
		if c.T != nil {
			return "", false
		}
		b[i] = byte(c.C)
	}
	return string(b), true
}

func strCells(v Value) SymStr {
	switch v := v.(type) {
	case string:
		s := make(SymStr, len(v))
		for i := 0; i < len(v); i++ {
			s[i] = Int{W: 8, C: uint64(v[i])}
		}
		return s
	case SymStr:
		return v
	}
	panic(fmt.Sprintf("strCells: %T", v))
}

func strLen(v Value) int {
	switch v := v.(type) {
	case string:
		return len(v)
	case SymStr:
		return len(v)
	}
	panic(fmt.Sprintf("strLen: %T", v))
}

// normStr turns an all-concrete SymStr into a Go string.
func normStr(s SymStr) Value {
	if c, ok := s.Concrete(); ok {
		return c
	}
	return s
}

// describe renders a value for diagnostics.
func describe(v Value) string {
	switch v := v.(type) {
	case Int:
		if v.T != nil {
			return v.T.String()
		}
		return fmt.Sprint(v.Signed())
	case Bool:
		if v.T != nil {
			return v.T.String()
		}
		return fmt.Sprint(v.C)
	case string:
		return fmt.Sprintf("%q", v)
	case SymStr:
		return fmt.Sprintf("symstr[%d]", len(v))
	case Struct:
		parts := make([]string, len(v))
		for i, x := range v {
			parts[i] = describe(x)
		}
		return "{" + strings.Join(parts, " ") + "}"
	case Array:
		return fmt.Sprintf("array[%d]", len(v))
	case Slice:
		return fmt.Sprintf("slice[%d]", len(v.A))
	case Iface:
		if v.T == nil {
			return "<nil>"
		}
		return fmt.Sprintf("%s(%s)", v.T, describe(v.V))
	case *Value:
		if v == nil {
			return "nil"
		}
		return "ptr"
	case nil:
		return "nil"
	}
	return fmt.Sprintf("%T", v)
}
