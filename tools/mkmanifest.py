#!/usr/bin/env python3
"""Writes /verif/MANIFEST.json from the table below (kept in one place so that
the claims, commands and not_applicable list stay consistent)."""
import json, sys

ENV = "GOFLAGS=-mod=mod GOPROXY=off GOSUMDB=off GOTOOLCHAIN=local"
TECH = "bounded symbolic execution of the Go SSA of /repo's working tree (own engine symgo) with SMT (cvc5 int-blasting, z3 fall-back) deciding every branch and assertion; counterexamples replayed natively"

checks = {
 "C01": ("generated parse() of each corpus grammar (real lox output, rebuilt every run) run on symbolic token sequences of every length up to the bound; per path the solver decides 'parse succeeded cleanly <=> CYK(reference CNF)(tokens)' for all token values at once. Bounds: n<=5 quick / n<=8 thorough. The grammar dimension is an enumerated corpus (27 items aimed at nullable/recursive/sugar mechanisms).",
         "corpus grammars only; reference CNF/CYK is mine and self-tested against a direct derivation search; token kinds range over the item's terminals"),
 "C02": ("the generated PushRune/Reset/Token of each greedy lexer item driven by the real simplelexer (ReadToken/consume, bytes.Reader.ReadRune) over every input of up to 3 (thorough 5) arbitrary bytes, valid and invalid UTF-8; each recorded stretch is validated against a Glushkov position automaton built by my own parser of the documented lexer syntax: every consumed character keeps the run viable, the run cannot be extended, the effect is that of the earliest declared rule matching exactly that run, token type/text/position as defined. The engine's utf8.DecodeRune model is itself proved equal to the real function by the solver on every run.",
         "rule sets are an enumerated corpus (15 items); Go's UTF-8 decoder shared by reference and implementation; comparison ends at the first ERROR token"),
 "C06": ("reduced form: six Go type layouts on which lox must succeed by Go assignability (identical types, interface-typed parameters, named slices for list terms, generic instantiations, types imported from other packages, aliases) over one grammar with A*, a rule, an optional rule, @list(...)? and a token: the generated files must type-check with the package, and for every token sequence up to n=6 (thorough 8) every parameter of the start action holds exactly the value produced for its term (all elements of both lists in input order, the rule values, the zero value for the absent optional, the END token).",
         "the verdict clause 'lox succeeds exactly when ...' for missing, ambiguous or orphaned methods is behind go list / go/types and not decided; _cast's type assertion is evaluated with go/types identity/implements as Go does"),
 "C07": ("as C02 on 11 mode/action items (nested, recursive, re-entering the default mode; every written order of @emit/@discard/@push_mode/@pop_mode): the reference follows the written actions on an explicit mode stack and each stretch is validated against the automaton of the reference's current mode; accumulated fragment text must start the next emitted token, and may not be dropped at EOF.",
         "mode graphs and action orders are enumerated; pop on an empty stack ends the comparison (undocumented)"),
 "C08": ("as C02 on 10 items of the documented non-greedy shape (prefix, *? or +? over a one-character expression, literal terminator; self-overlapping terminators, bodies containing terminator characters): a stretch must end at the first position where the non-greedy rule is completely matched and not before the run stops being extendable otherwise. Arbitrary bytes up to 2 (4), ASCII bytes up to 5 (7). The greedy-overlap item reports the known per-state finding.",
         "non-greedy operators in other positions are outside the claim"),
 "C11": ("H_Account on nullable-rule, accumulating-fragment, mode and greedy items: EOF/ERROR must be reached within 2*len+2 ReadToken calls and 3M interpreter steps each (overruns replayed natively under a time limit), token texts / discarded stretches / the error stretch must tile the input, and text pending in the accumulator at end of input must be reported, for every input of up to 3 (5) arbitrary bytes.",
         "behaviour after the first ERROR token is outside (driver skips to end of line)"),
 "C03": ("generated parse()/_act() on symbolic token sequences with symbolic Discard() bits; on every accepting path the action log is checked by a derivation-tree checker (one call per user node, post-order, arguments identical to the child results / shifted tokens, sugar values as documented). n<=5 / n<=8.",
         "corpus grammars; uniqueness of the derivation tree rests on lox having accepted the grammar"),
 "C04": ("reduced form. The whole of ConstructLALR (closure, goto, look-ahead propagation, createActions, resolveConflicts) is executed on seven small conflict grammars built through the real Grammar API with the Precedence (64-bit) and Associativity of every production symbolic: conflicts are reported exactly when some production of a same-rule shift/reduce pair lacks a qualifier; reduce/reduce, cross-rule and three-way conflicts are never hidden for any qualifier values; resolved tables have one action per cell with the documented direction where the documentation is unambiguous. ItemSet.LR0Key on item sets of symbolic items: keys equal iff LR(0) kernels equal.",
         "grammar shapes are fixed; the verdict for arbitrary grammars (rejecting an LALR(1) grammar, accepting a non-LALR(1) one outside these shapes) is structural and not decided; language equality of accepted grammars is C01"),
 "C05": ("generated parsers of 14 operator tables on symbolic token sequences (n<=5 / n<=9): language equals the expression language and the action tree equals the tree of a precedence-climbing reference parser. The equal-level @right defect is reported as a known finding through a defect-model classifier.",
         "operator tables are enumerated; mixed associativity at one level excluded as undocumented"),
 "C09": ("generated parse()/_recover()/_makeError() on symbolic token sequences including lexer ERROR tokens over 12 @error placements (n<=4 / n<=6): step-budget overruns are termination candidates (replayed natively), no panic, non-sentences never accepted silently, first delivered Error carries the first non-viable token (viable-prefix recogniser over the reference CNF), recovered trees are derivation trees with @error stretches.",
         "corpus grammars; budget 3M SSA steps per path"),
 "C10": ("kernel checks over arbitrary table contents: (1) the real table[int32|uint32].AddRow/Array/rowKey with symbolic cells and hole patterns — decoding Array() by the documented layout returns exactly the rows, missing indices are -1, index cells stay inside, shared rows are equal (varint keys compared by the solver); (2) the generated _Find on an arbitrary well-formed table, row and key; (3) two steps of the generated PushRune on an arbitrary sorted-disjoint row with symbolic bounds, targets and non-greedy flag (binary search, accept after consumption, no empty match). (4) gen.Product: for every mode (non-default ones entered through a host-computed string of complete, non-extendable matches) of 6 (thorough: all) lexer items the set of pairs (table state, reference position set) is closed by a work-list; each pair is one exploration in which the solver decides for every rune -1..U+10FFFF at once that the emitted table and the Glushkov reference agree on consuming, on the accepted rule and on the successor pair — agreement over strings of any length within one match; (5) concrete precondition gen.RowInvariant: every emitted row of every lexer item is inside the table, sorted, disjoint, with existing targets and known actions.",
         "table shapes of the kernel lemmas bounded (<=3 rows x 2 cells quick); the parser tables are covered by the bounded differentials of C01/C03 and the _Find lemma only; RowInvariant is concrete, not solver-decided"),
 "C12": ("front end only. The real ParseLox (parser.Parse with the augmented lexer and every on_* action, unescape/hexToRune, ast.Analyze with its four passes over every node type, ModeBuilder.Build, NFAToDFA/optimize, ConstructLALR) is executed from its SSA on in-memory .lox files made of a template with holes: every hole is an arbitrary byte (any value, invalid UTF-8 included) — 26 templates (precedence digits, literal body, class body, token name, @push_mode/@emit argument, raw bytes at statement level in both sections, term reference, cardinality and operator positions) with up to 2 (thorough 3) holes, one hole in the second file of a two-file specification, \\x/\\u/\\U escapes with arbitrary hexadecimal digits, precedences of 1-3 and 19-20 arbitrary digits. Concrete by-product (not solver-decided): every corpus item of every family is run through the real binary and crashes are reported. Asserted on every path: no panic, no budget overrun, failure implies at least one printed diagnostic and the error flag, success implies grammar, table and modes without conflicts.",
         "Go-package inputs (missing, empty, ill-typed packages), template rendering, go/format and partial output on disk are outside: behind go list, reflection and I/O"),
 "C13": ("map-iteration dimension only. The iteration order of Go's built-in maps is an explicit oracle of the engine (a solver variable per map size and path, all n! orders for n<=4, rotations and reversals above): stablemap.Map under arbitrary Put/Remove/Clear sequences with arbitrary keys keeps insertion order; ModeBuilder.Build (normalizeInputs, NFAToDFA, optimize, mergeTransitions, pickAction) on three rule sets and ConstructLALR on an expression grammar produce identical serialised automata / tables under every explored order.",
         "stale files, working directories and other processes have no encoding here; map ranges in codegen that need go/types objects are read, not executed"),
 "C15": ("rang3 Contains/Intersects/Touches/Compare/Flatten/Subtract/Normalize (with container/heap, slices.SortFunc, stack) executed on arbitrary ranges 0<=B<=E<=U+10FFFF and an arbitrary probe code point: set-theoretic membership, sortedness, exact-union and pairwise-disjointness assertions decided for all values. k<=3 (Flatten), 2x2 (Subtract), k<=3 (Normalize) quick; 4, 3x3, 3 thorough. ast.CharClass.GetRanges and CharClassBinaryExpr.GetRanges with arbitrary items and an arbitrary negation flag: [..], ~[..] and [..]-[..] denote exactly their set-theoretic meaning over 0..U+10FFFF (k<=2, 1-1 quick; 3, 2-1, 1-2 thorough). Class syntax, escapes and literals are exercised through C02's items and C12/C17's templates.",
         "sort.Slice modelled as insertion sort calling the real less; list lengths bounded"),
 "C17": ("the real ParseLox on templates whose holes are names and range ends: a two-byte token name (letters, digits, underscore) in the default mode / inside a mode / in a second file — accepted iff it obeys the documented naming rules and is unique across tokens, macros, modes and rules; [lo-hi] in a token, a macro and a negated difference inside a mode — accepted iff lo <= hi; a two-byte name in @emit( ), @push_mode( ), a macro reference and a parser term — accepted iff something of the right kind is defined (tokens incl. @external, rules, modes, macros). On every rejection a printed diagnostic must be positioned on the line of the faulty declaration.",
         "predicate written from the documentation; position checked at line granularity; macro cycles, @start multiplicity and action multiplicity are not in the catalogue"),
 "C18": ("by reduction, not by exploring schedules: two instances (parsers of 9 items incl. error recovery and _onBounds variants, lexers of 4 items) run one after the other inside one symbolic execution under a memory monitor (every cell read, written, appended to or copied, every map touched); asserted: no cell written by one instance is touched by the other, no write reaches a cell reachable from package-level variables, and a third fresh instance reproduces the first one's result. Counterexamples are replayed natively with the two instances on two goroutines under go test -race.",
         "disjoint footprints + read-only globals => race-free and sequentially equivalent is a meta-argument from the Go memory model; two instances only; second instance on a fixed input"),
 "C19": ("_TokenToString executed on a symbolic int for 8 numbering items (modes, @external, @emit-only tokens, two files, tokens the parser never mentions): name of terminal t for every declared constant, \"???\" for every other int value; EOF=0, ERROR=1 and dense declaration order are read back from the generated constants (concrete precondition); the lexer and parser differentials on the same items refer to token kinds only through the generated constants' names, so a table keyed by other numbers shows up as a mismatch.",
         "numbering itself is a concrete read-back, not solver-decided"),
 "C16": ("the _onBounds variant of every language-corpus grammar: the exact sequence of _onBounds calls (result identity, first/last token, position relative to the actions) is derived from the checked derivation tree and compared on every accepting path; n<=5 / n<=8.",
         "x*! items excluded (span of dropped elements undocumented); twin equality follows from both variants passing the same unique-tree check"),
}

not_applicable = {
 "C14": "byte-for-byte comparison of one concrete computation with files on disk; no input a solver could range over (DESIGN.md section 5)",
}
pending = []

def main():
    m = {
     "version": 1,
     "setup_cmd": f"cd /verif && {ENV} go build -o bin/vcheck ./cmd/vcheck",
     "hooks": {
      "guard": "verif",
      "enable": "no source hooks: harnesses are injected with go/packages Overlay and go test -overlay; generated corpus items live in a scratch module",
      "baseline_off_cmd": f"cd /repo && {ENV} go test -vet=off -count=1 ./...",
      "source_commits": [],
      "add_only": True
     },
     "engines": [{"name": "symgo", "path": "/verif/symgo", "serves_properties": sorted(checks), "kind_free_text": "symbolic executor for Go SSA (x/tools v0.29.0) written for this task; SMT back ends cvc5 1.0 (--solve-bv-as-int=sum) and z3 4.8.12, z3 5.1.0 as cross-check in the thorough tier"}],
     "checks": [],
     "notes": "exit codes: 0 held, 1 violation (VIOLATION line), 2 inconclusive (unwinding/unknown/unsupported), 3 broken (vacuity or engine discrepancy). Fixed defects are commits in /repo starting with 'fix:'; see known_findings.json.",
     "not_applicable": [{"property_id": k, "reason": v} for k, v in sorted(not_applicable.items())]
           + [{"property_id": k, "reason": "check under construction in this session (not yet registered)"} for k in pending if k not in checks],
    }
    for pid in sorted(checks):
        text, note = checks[pid]
        m["checks"].append({
         "property_id": pid,
         "quick_cmd": f"cd /verif && {ENV} ./bin/vcheck -p {pid} -tier quick",
         "thorough_cmd": f"cd /verif && {ENV} ./bin/vcheck -p {pid} -tier thorough",
         "evidence_file": f"/verif/evidence/{pid}.json",
         "replay_cmd_template": "cd /verif && ./bin/vcheck -replay {path}",
         "engine": "symgo",
         "level_claimed": {"category": "model_checking", "text": text, "design_ref": "DESIGN.md section 4, " + pid},
         "level_note": note,
         "technique": TECH,
        })
    json.dump(m, open("/verif/MANIFEST.json", "w"), indent=1)
    print("wrote MANIFEST.json with", len(m["checks"]), "checks")

main()
