#!/bin/bash
# runs every registered quick check on /repo's current tree and prints one line each
cd /verif
for p in $(python3 -c "import json;print(' '.join(c['property_id'] for c in json.load(open('MANIFEST.json'))['checks']))"); do
  s=$(date +%s)
  timeout 3000 ./bin/vcheck -p $p -tier ${1:-quick} > /tmp/out_$p.txt 2>&1
  rc=$?
  echo "$p exit=$rc $(( $(date +%s) - s ))s $(tail -1 /tmp/out_$p.txt | cut -c1-150)"
done
