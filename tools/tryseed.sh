#!/bin/bash
# tools/tryseed.sh <patch.diff> <prop> [<prop>...] : apply a seeded change to /repo, run the quick checks, undo.
set -u
patch=$1; shift
cd /repo || exit 2
if [ -n "$(git status --porcelain)" ]; then echo "/repo not clean"; exit 2; fi
git apply "$patch" || { echo "patch does not apply"; exit 2; }
trap 'git -C /repo checkout -- . ; git -C /repo clean -fdq' EXIT
cd /verif
for p in "$@"; do
  out=/tmp/seedrun_$p.txt
  timeout 3000 ${VCHECK:-./bin/vcheck} -p $p > $out 2>&1
  echo "== $p exit=$?"
  grep -E "VIOLATION|KNOWN-FINDING|BROKEN|INCONCLUSIVE|violated:" $out | cut -c1-300 | head -12
  tail -1 $out
done
