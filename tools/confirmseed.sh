#!/bin/bash
# tools/confirmseed.sh <id> : confirm a seeded change in a scratch worktree:
# suite passes with it, demo fails with it, demo passes without it.
set -u
id=$1
seed=/tmp/seed-$id
wt=/tmp/cs-$id
export GOFLAGS=-mod=mod GOPROXY=off GOSUMDB=off GOTOOLCHAIN=local
git -C /repo worktree remove --force $wt 2>/dev/null
git -C /repo worktree add -q $wt HEAD || exit 2
cd $wt
res="id=$id"
git apply $seed/patch.diff || { echo "$res patch-does-not-apply"; exit 1; }
go build ./... || { echo "$res build-fails"; exit 1; }
if go test -vet=off -count=1 ./... > /tmp/cs-$id-suite.txt 2>&1; then res="$res suite_with_change=pass"; else res="$res suite_with_change=FAIL"; fi
mkdir -p zz_demo && if [ -d $seed/demo/zz_demo ]; then cp -r $seed/demo/zz_demo/* zz_demo/; else cp -r $seed/demo/* zz_demo/; fi
if timeout 900 go test -vet=off -count=1 ./zz_demo/... > /tmp/cs-$id-demo-with.txt 2>&1; then res="$res demo_with_change=pass"; else res="$res demo_with_change=fail"; fi
rm -rf zz_demo
git checkout -q -- . && git clean -fdq
mkdir -p zz_demo && if [ -d $seed/demo/zz_demo ]; then cp -r $seed/demo/zz_demo/* zz_demo/; else cp -r $seed/demo/* zz_demo/; fi
if timeout 900 go test -vet=off -count=1 ./zz_demo/... > /tmp/cs-$id-demo-without.txt 2>&1; then res="$res demo_without_change=pass"; else res="$res demo_without_change=fail"; fi
cd /; git -C /repo worktree remove --force $wt
echo "$res"
