#!/bin/bash
# tools/regress_seeds.sh [jobs [seed ids...]] : run every stored seeded change against the quick check of its
# property in its own scratch worktree (VERIF_REPO), never touching /repo. Prints one line per seed.
# Evidence of these runs goes to a scratch directory, not to /verif/evidence.
set -u
jobs=${1:-3}
export GOFLAGS=-mod=mod GOPROXY=off GOSUMDB=off GOTOOLCHAIN=local
cd /verif
run_one() {
  id=$1
  prop=$(python3 -c "import json;print(json.load(open('/verif/seeded/$id/meta.json'))['property'])")
  wt=/tmp/rs-$id
  git -C /repo worktree remove --force $wt 2>/dev/null
  git -C /repo worktree add -q --detach $wt HEAD || { echo "$id worktree-failed"; return; }
  if ! git -C $wt apply /verif/seeded/$id/patch.diff 2>/dev/null; then
    echo "$id prop=$prop patch-does-not-apply-to-HEAD"
  else
    VERIF_REPO=$wt VERIF_EVIDENCE=/tmp/rs-ev-$id VERIF_WORKERS=${VERIF_WORKERS:-5} timeout 3000 ./bin/vcheck -p $prop > /tmp/rs-$id.txt 2>&1
    rc=$?
    v=$(grep -c "^VIOLATION" /tmp/rs-$id.txt)
    first=$(grep -m1 "^VIOLATION" /tmp/rs-$id.txt | sed 's/.*replays\///')
    echo "$id prop=$prop exit=$rc violations=$v first=$first"
  fi
  git -C /repo worktree remove --force $wt
  rm -rf /tmp/rs-ev-$id
}
export -f run_one
# remaining arguments: seed ids (default: all)
shift || true
if [ $# -gt 0 ]; then ids="$*"; else ids=$(ls /verif/seeded); fi
echo $ids | tr ' ' '\n' | xargs -P $jobs -I{} bash -c 'run_one {}'
